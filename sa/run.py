"""CLI: python -m sa.run <ID> [--tier quick|thorough] [--explain replay.json]

exit 0  property's obligations discharged (or only listed known findings)
exit 1  VIOLATION property=<id> replay=<path>
exit 2  ANALYSIS-ERROR (anchor vanished, unrecognised shape, floor not met, checker bug)
"""
from __future__ import annotations

import argparse
import importlib
import json
import os
import sys
import time

from . import core
from .project import AnalysisError, Project


def load_pack(pid: str):
    try:
        return importlib.import_module(f'sa.packs.{pid.lower()}')
    except ModuleNotFoundError as e:
        if e.name and e.name.endswith(pid.lower()):
            raise AnalysisError(f'no rule pack for {pid}')
        raise


def main(argv=None) -> int:
    ap = argparse.ArgumentParser()
    ap.add_argument('pid')
    ap.add_argument('--tier', default=os.environ.get('VERIF_TIER', 'quick'), choices=['quick', 'thorough'])
    ap.add_argument('--explain')
    ap.add_argument('--root', default=None)
    args = ap.parse_args(argv)
    pid = args.pid.upper()
    seed = int(os.environ.get('VERIF_SEED', '0') or 0)
    t0 = time.time()

    if args.explain:
        with open(args.explain) as f:
            r = json.load(f)
        print(json.dumps(r, indent=1))
        return 0

    try:
        pack = load_pack(pid)
    except AnalysisError as e:
        print(f'ANALYSIS-ERROR property={pid} {e}')
        return 2
    level = getattr(pack, 'LEVEL', 'other')

    def check(ctx):
        pack.check(ctx)
        if args.tier == 'thorough' and hasattr(pack, 'check_thorough'):
            pack.check_thorough(ctx)

    try:
        proj = Project(args.root)
    except AnalysisError as e:
        core.write_evidence(pid, args.tier, seed, level, None, time.time() - t0, error=str(e))
        print(f'ANALYSIS-ERROR property={pid} {e}')
        return 2

    res = core.run_pack(pid, args.tier, check, proj=proj)
    if res['error']:
        core.write_evidence(pid, args.tier, seed, level, None, time.time() - t0, error=res['error'])
        print(f'ANALYSIS-ERROR property={pid} {res["error"]}')
        return 2
    ctx = res['ctx']
    if res.get('floor_error'):
        # an instance floor is not met: analysis error, unless a new violation is being reported anyway
        _k, _new = core.classify(pid, ctx)
        if not _new:
            core.write_evidence(pid, args.tier, seed, level, None, time.time() - t0, error=res['floor_error'])
            print(f'ANALYSIS-ERROR property={pid} {res["floor_error"]}')
            return 2
    extra = {}
    if hasattr(pack, 'extra_coverage'):
        extra.update(pack.extra_coverage(ctx))

    selfcheck_bad = False
    if args.tier == 'thorough':
        from . import selfcheck
        sc = selfcheck.run(pid, seed)
        extra['selfcheck'] = sc['summary']
        extra['selfcheck_detail'] = sc['detail']
        for line in sc['lines']:
            print(line)
        if sc['misses'] and os.environ.get('VERIF_SELFCHECK_STRICT') == '1':
            selfcheck_bad = True

    known_hits, new = core.classify(pid, ctx)
    n_ok = sum(1 for o in ctx.obligations if o.status == 'ok')
    print(f'{pid} [{args.tier}] obligations={len(ctx.obligations)} discharged={n_ok} '
          f'known={len(known_hits)} new={len(new)} functions={len(ctx.analysed["functions"])} '
          f'wall={time.time() - t0:.2f}s')
    for rid in ctx.rules:
        n = sum(1 for o in ctx.obligations if o.rule == rid)
        nf = sum(1 for o in ctx.obligations if o.rule == rid and o.status == 'fail')
        print(f'  {rid}: {n} instances, {nf} failing (floor {ctx.floors[rid]})')
    printed = set()
    for o, k in known_hits:
        if o.key in printed:
            continue            # one line per listed finding (a normal-form rewrite can make the same construct appear twice)
        printed.add(o.key)
        print(f'KNOWN-FINDING: property={pid} {o.rule} {o.file}:{o.line} {o.site} [{o.construct}] {o.detail}')
    rc = 0
    for i, o in enumerate(new):
        path = core.write_replay(pid, i, o)
        print(f'VIOLATION property={pid} replay={path}')
        print(f'  {o.file}:{o.line} {o.site} rule={o.rule} instance=[{o.construct}] {o.detail}')
        rc = 1
    core.write_evidence(pid, args.tier, seed, level, ctx, time.time() - t0, extra=extra)
    if rc == 0 and selfcheck_bad:
        print(f'ANALYSIS-ERROR property={pid} checker self-validation missed a seeded variant (strict mode)')
        return 2
    return rc


if __name__ == '__main__':
    import signal
    try:
        signal.signal(signal.SIGPIPE, signal.SIG_DFL)
    except Exception:
        pass
    try:
        code = main()
    except AnalysisError as e:
        print(f'ANALYSIS-ERROR {e}')
        code = 2
    except Exception as e:  # never let a traceback masquerade as a violation
        import traceback
        traceback.print_exc()
        print(f'ANALYSIS-ERROR internal {type(e).__name__}: {e}')
        code = 2
    sys.stdout.flush()
    sys.exit(code)
