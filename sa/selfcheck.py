"""Checker self-validation (thorough tier).

Seeded source variants are applied as in-memory overlays of the *current* tree
(nothing is written to disk).  A breaking variant must be reported (new failing
obligation, optionally of the expected rule), a neutral variant must leave the
verdict unchanged, a repair variant must make its known finding disappear.
A variant whose anchor text no longer occurs exactly once is skipped.
"""
from __future__ import annotations

import importlib
import os
import random
from concurrent.futures import ProcessPoolExecutor
from dataclasses import dataclass, field
from typing import Dict, List, Optional, Tuple

from . import core
from .project import AnalysisError, Project


@dataclass
class V:
    name: str
    kind: str                      # 'break' | 'neutral' | 'repair'
    file: str
    edits: List[Tuple[str, str]]
    expect: Optional[str] = None   # rule id prefix expected to fire (break) / known key to vanish (repair)
    note: str = ''
    more: Dict[str, List[Tuple[str, str]]] = field(default_factory=dict)   # extra files


def _apply(root: str, v: V) -> Optional[Dict[str, str]]:
    overlay = {}
    files = {v.file: v.edits}
    files.update(v.more)
    for rel, edits in files.items():
        path = os.path.join(root, rel)
        if not os.path.exists(path):
            return None
        with open(path, encoding='utf-8') as f:
            text = f.read()
        for old, new in edits:
            if text.count(old) != 1:
                return None
            text = text.replace(old, new)
        overlay[rel] = text
    return overlay


def _baseline(pid: str, root: str):
    pack = importlib.import_module(f'sa.packs.{pid.lower()}')
    res = core.run_pack(pid, 'quick', pack.check, proj=Project(root))
    if res['error'] or res.get('floor_error'):
        return None
    return {o.key for o in res['ctx'].obligations if o.status == 'fail'}


def _run_variant(args):
    pid, root, v, base_fail = args
    pack = importlib.import_module(f'sa.packs.{pid.lower()}')
    overlay = _apply(root, v)
    if overlay is None:
        return (v.name, v.kind, 'skipped', 'anchor text not found exactly once on the current tree')
    try:
        proj = Project(root, overlay=overlay)
    except AnalysisError as e:
        return (v.name, v.kind, 'error', f'variant does not load: {e}')
    res = core.run_pack(pid, 'quick', pack.check, proj=proj)
    if res['error']:
        if v.kind == 'break':
            return (v.name, v.kind, 'error', f'analysis error instead of a verdict: {res["error"][:300]}')
        return (v.name, v.kind, 'error', res['error'][:300])
    fails = {o.key: o for o in res['ctx'].obligations if o.status == 'fail'}
    new = [k for k in fails if k not in base_fail]
    if res.get('floor_error') and not new:
        return (v.name, v.kind, 'error', f'analysis error instead of a verdict: {res["floor_error"][:300]}')
    gone = [k for k in base_fail if k not in fails]
    if v.kind == 'break':
        hit = [k for k in new if (v.expect is None or k.startswith(v.expect))]
        if hit:
            o = fails[hit[0]]
            return (v.name, v.kind, 'detected', f'{o.rule} at {o.site} [{o.construct}]')
        if new:
            return (v.name, v.kind, 'detected-other', f'reported by {sorted(new)[:3]} (expected {v.expect})')
        return (v.name, v.kind, 'MISS', 'no new failing obligation')
    if v.kind == 'neutral':
        if new:
            return (v.name, v.kind, 'FALSE-ALARM', f'new failing obligations {sorted(new)[:3]}')
        return (v.name, v.kind, 'silent', '')
    if v.kind == 'repair':
        want = [k for k in base_fail if v.expect and k.startswith(v.expect)]
        still = [k for k in want if k in fails]
        if not want:
            return (v.name, v.kind, 'skipped', f'finding {v.expect} not present on the current tree (already repaired)')
        if still or new:
            return (v.name, v.kind, 'MISS', f'still failing {still[:2]} new {new[:2]}')
        return (v.name, v.kind, 'silent', f'{len(want)} finding(s) gone')
    return (v.name, v.kind, 'error', 'unknown variant kind')


def load_variants(pid: str) -> List[V]:
    try:
        mod = importlib.import_module(f'sa.variants.{pid.lower()}')
    except ModuleNotFoundError:
        return []
    return list(mod.VARIANTS)


def run(pid: str, seed: int = 0, root: Optional[str] = None, jobs: int = 16) -> Dict:
    root = root or os.environ.get('TALLY_REPO', '/repo')
    variants = load_variants(pid)
    random.Random(seed).shuffle(variants)
    base = _baseline(pid, root)
    if base is None or not variants:
        return {'summary': 'no variants' if not variants else 'baseline analysis error', 'detail': [], 'misses': [], 'lines': []}
    jobs_args = [(pid, root, v, base) for v in variants]
    with ProcessPoolExecutor(max_workers=min(jobs, len(variants))) as ex:
        results = list(ex.map(_run_variant, jobs_args))
    det = sum(1 for r in results if r[1] == 'break' and r[2].startswith('detected'))
    nb = sum(1 for r in results if r[1] == 'break' and r[2] != 'skipped')
    sil = sum(1 for r in results if r[1] in ('neutral', 'repair') and r[2] == 'silent')
    nn = sum(1 for r in results if r[1] in ('neutral', 'repair') and r[2] != 'skipped')
    skipped = sum(1 for r in results if r[2] == 'skipped')
    misses = [r for r in results if r[2] in ('MISS', 'FALSE-ALARM', 'error')]
    lines = [f'SELFCHECK-MISS property={pid} variant={r[0]} kind={r[1]} result={r[2]} {r[3]}' for r in misses]
    lines.append(f'selfcheck {pid}: detected {det}/{nb} breaking, silent {sil}/{nn} neutral+repair, skipped {skipped}')
    return {'summary': f'detected {det}/{nb} breaking, silent {sil}/{nn} neutral, skipped {skipped}',
            'detail': [{'variant': r[0], 'kind': r[1], 'result': r[2], 'info': r[3]} for r in sorted(results)],
            'misses': misses, 'lines': lines}
