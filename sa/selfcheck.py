"""Checker self-validation (thorough tier).

Seeded source variants are applied as in-memory overlays of the *current* tree
(nothing is written to disk).  A breaking variant must be reported (new failing
obligation, optionally of the expected rule), a neutral variant must leave the
verdict unchanged, a repair variant must make its known finding disappear.
A variant whose anchor text no longer occurs exactly once is skipped.
"""
from __future__ import annotations

import importlib
import os
import random
from concurrent.futures import ProcessPoolExecutor
from dataclasses import dataclass, field
from typing import Dict, List, Optional, Tuple

from . import core
from .project import AnalysisError, Project


@dataclass
class V:
    name: str
    kind: str                      # 'break' | 'neutral' | 'repair'
    file: str
    edits: List[Tuple[str, str]]
    expect: Optional[str] = None   # rule id prefix expected to fire (break) / known key to vanish (repair)
    note: str = ''
    more: Dict[str, List[Tuple[str, str]]] = field(default_factory=dict)   # extra files


def _apply(root: str, v: V) -> Optional[Dict[str, str]]:
    overlay = {}
    files = {v.file: v.edits}
    files.update(v.more)
    for rel, edits in files.items():
        path = os.path.join(root, rel)
        if not os.path.exists(path):
            return None
        with open(path, encoding='utf-8') as f:
            text = f.read()
        for old, new in edits:
            if text.count(old) != 1:
                return None
            text = text.replace(old, new)
        overlay[rel] = text
    return overlay


def _baseline(pid: str, root: str):
    pack = importlib.import_module(f'sa.packs.{pid.lower()}')
    res = core.run_pack(pid, 'quick', pack.check, proj=Project(root))
    if res['error'] or res.get('floor_error'):
        return None
    return {o.key for o in res['ctx'].obligations if o.status == 'fail'}


def _run_variant(args):
    pid, root, v, base_fail = args
    pack = importlib.import_module(f'sa.packs.{pid.lower()}')
    overlay = _apply(root, v)
    if overlay is None:
        return (v.name, v.kind, 'skipped', 'anchor text not found exactly once on the current tree')
    try:
        proj = Project(root, overlay=overlay)
    except AnalysisError as e:
        return (v.name, v.kind, 'error', f'variant does not load: {e}')
    res = core.run_pack(pid, 'quick', pack.check, proj=proj)
    if res['error']:
        if v.kind == 'break':
            return (v.name, v.kind, 'error', f'analysis error instead of a verdict: {res["error"][:300]}')
        return (v.name, v.kind, 'error', res['error'][:300])
    fails = {o.key: o for o in res['ctx'].obligations if o.status == 'fail'}
    new = [k for k in fails if k not in base_fail]
    if res.get('floor_error') and not new:
        return (v.name, v.kind, 'error', f'analysis error instead of a verdict: {res["floor_error"][:300]}')
    gone = [k for k in base_fail if k not in fails]
    if v.kind == 'break':
        hit = [k for k in new if (v.expect is None or k.startswith(v.expect))]
        if hit:
            o = fails[hit[0]]
            return (v.name, v.kind, 'detected', f'{o.rule} at {o.site} [{o.construct}]')
        if new:
            return (v.name, v.kind, 'detected-other', f'reported by {sorted(new)[:3]} (expected {v.expect})')
        return (v.name, v.kind, 'MISS', 'no new failing obligation')
    if v.kind == 'neutral':
        if new:
            return (v.name, v.kind, 'FALSE-ALARM', f'new failing obligations {sorted(new)[:3]}')
        return (v.name, v.kind, 'silent', '')
    if v.kind == 'repair':
        want = [k for k in base_fail if v.expect and k.startswith(v.expect)]
        still = [k for k in want if k in fails]
        if not want:
            return (v.name, v.kind, 'skipped', f'finding {v.expect} not present on the current tree (already repaired)')
        if still or new:
            return (v.name, v.kind, 'MISS', f'still failing {still[:2]} new {new[:2]}')
        return (v.name, v.kind, 'silent', f'{len(want)} finding(s) gone')
    return (v.name, v.kind, 'error', 'unknown variant kind')


# ------------------------------------------------------------------ independent seeded changes (unified diffs) as overlays
SEEDED = os.path.join(os.path.dirname(os.path.dirname(os.path.abspath(__file__))), 'seeded')


def _apply_diff(root: str, diff_text: str) -> Optional[Dict[str, str]]:
    """Apply a unified diff to the current files in memory.  A hunk is located by its old lines (context + removed), nearest to the
    line the hunk states; None if any hunk cannot be placed (the tree has moved on: the variant is skipped, not passed)."""
    overlay: Dict[str, str] = {}
    cur_file = None
    hunks: Dict[str, List[Tuple[int, List[str], List[str]]]] = {}
    lines = diff_text.split('\n')
    i = 0
    while i < len(lines):
        ln = lines[i]
        if ln.startswith('+++ '):
            pth = ln[4:].strip()
            cur_file = pth[2:] if pth.startswith('b/') else pth
            hunks.setdefault(cur_file, [])
        elif ln.startswith('@@') and cur_file:
            try:
                start = int(ln.split('-')[1].split(',')[0].split(' ')[0])
            except (IndexError, ValueError):
                return None
            old, new = [], []
            i += 1
            while i < len(lines) and not lines[i].startswith(('@@', 'diff ', '--- ', '+++ ')):
                h = lines[i]
                if h.startswith('+'):
                    new.append(h[1:])
                elif h.startswith('-'):
                    old.append(h[1:])
                elif h.startswith(' ') or h == '':
                    if h == '' and i == len(lines) - 1:
                        break
                    old.append(h[1:])
                    new.append(h[1:])
                elif h.startswith('\\'):
                    pass
                i += 1
            hunks[cur_file].append((start, old, new))
            continue
        i += 1
    for rel, hs in hunks.items():
        path = os.path.join(root, rel)
        if not os.path.exists(path):
            return None
        with open(path, encoding='utf-8') as f:
            text = f.read().split('\n')
        shift = 0
        for start, old, new in hs:
            # like patch(1): if the hunk does not match as a whole, drop up to two lines of pure context at either end
            lead = 0
            while lead < len(old) and lead < len(new) and old[lead] == new[lead]:
                lead += 1
            trail = 0
            while trail < len(old) - lead and trail < len(new) - lead and old[len(old) - 1 - trail] == new[len(new) - 1 - trail]:
                trail += 1
            placed = False
            for fuzz in (0, 1, 2):
                a, b = min(fuzz, lead), min(fuzz, trail)
                o = old[a:len(old) - b] if b else old[a:]
                n = new[a:len(new) - b] if b else new[a:]
                if not o:
                    continue
                cands = [k for k in range(0, len(text) - len(o) + 1) if text[k:k + len(o)] == o]
                if not cands:
                    continue
                k = min(cands, key=lambda c: abs(c - (start - 1 + a + shift)))
                text[k:k + len(o)] = n
                shift += len(n) - len(o)
                placed = True
                break
            if not placed:
                return None
        overlay[rel] = '\n'.join(text)
    return overlay


def seeded_for(pid: str) -> List[Tuple[str, str]]:
    """(name, diff text) of the independent seeded changes this pack is recorded to report (meta.json: detection_now.checks)"""
    import glob
    import json
    out = []
    for d in sorted(glob.glob(os.path.join(SEEDED, '*'))):
        mp = os.path.join(d, 'meta.json')
        if not os.path.isfile(mp):
            continue
        with open(mp) as f:
            meta = json.load(f)
        if pid in (meta.get('detection_now') or {}).get('checks', {}) and not meta.get('superseded'):
            with open(os.path.join(d, 'patch.diff'), encoding='utf-8') as f:
                out.append((os.path.basename(d), f.read()))
    return out


def _run_seeded(args):
    pid, root, name, diff, base_fail = args
    pack = importlib.import_module(f'sa.packs.{pid.lower()}')
    overlay = _apply_diff(root, diff)
    if overlay is None:
        return (f'seeded:{name}', 'break', 'skipped', 'the patch no longer applies to the current tree')
    try:
        proj = Project(root, overlay=overlay)
    except AnalysisError as e:
        return (f'seeded:{name}', 'break', 'error', f'does not load: {e}')
    res = core.run_pack(pid, 'quick', pack.check, proj=proj)
    if res['error']:
        return (f'seeded:{name}', 'break', 'error', f'analysis error instead of a verdict: {res["error"][:300]}')
    fails = {o.key: o for o in res['ctx'].obligations if o.status == 'fail'}
    new = [k for k in fails if k not in base_fail]
    if new:
        o = fails[sorted(new)[0]]
        return (f'seeded:{name}', 'break', 'detected', f'{o.rule} at {o.site} [{o.construct}]')
    return (f'seeded:{name}', 'break', 'MISS', 'no new failing obligation')


def _run_sweep(args):
    pid, root, tname, base_fail = args
    from . import sweeps
    pack = importlib.import_module(f'sa.packs.{pid.lower()}')
    sweeps.set_root(root)
    overlay = {}
    try:
        for rel in sweeps.py_files():
            with open(os.path.join(root, rel), encoding='utf-8') as f:
                overlay[rel] = sweeps.TRANSFORMS[tname](f.read(), rel)
            compile(overlay[rel], rel, 'exec')
    except Exception as e:
        return (f'sweep:{tname}', 'neutral', 'skipped', f'transformation not applicable to the current tree: {type(e).__name__}: {e}')
    res = core.run_pack(pid, 'quick', pack.check, proj=Project(root, overlay=overlay))
    if res['error']:
        return (f'sweep:{tname}', 'neutral', 'error', res['error'][:300])
    fails = {o.key for o in res['ctx'].obligations if o.status == 'fail'}
    new = sorted(fails - base_fail)
    if new:
        return (f'sweep:{tname}', 'neutral', 'FALSE-ALARM', f'new failing obligations {new[:3]}')
    if res.get('floor_error'):
        return (f'sweep:{tname}', 'neutral', 'error', res['floor_error'][:300])
    return (f'sweep:{tname}', 'neutral', 'silent', '')


def load_variants(pid: str) -> List[V]:
    try:
        mod = importlib.import_module(f'sa.variants.{pid.lower()}')
    except ModuleNotFoundError:
        return []
    return list(mod.VARIANTS)


def run(pid: str, seed: int = 0, root: Optional[str] = None, jobs: int = 16) -> Dict:
    root = root or os.environ.get('TALLY_REPO', '/repo')
    variants = load_variants(pid)
    random.Random(seed).shuffle(variants)
    base = _baseline(pid, root)
    if base is None or not variants:
        return {'summary': 'no variants' if not variants else 'baseline analysis error', 'detail': [], 'misses': [], 'lines': []}
    jobs_args = [(pid, root, v, base) for v in variants]
    from . import sweeps
    with ProcessPoolExecutor(max_workers=jobs) as ex:
        f1 = ex.map(_run_variant, jobs_args)
        f2 = ex.map(_run_seeded, [(pid, root, n, d, base) for n, d in seeded_for(pid)])
        f3 = ex.map(_run_sweep, [(pid, root, t, base) for t in sorted(sweeps.TRANSFORMS)])
        results = list(f1) + list(f2) + list(f3)
    det = sum(1 for r in results if r[1] == 'break' and r[2].startswith('detected'))
    nb = sum(1 for r in results if r[1] == 'break' and r[2] != 'skipped')
    sil = sum(1 for r in results if r[1] in ('neutral', 'repair') and r[2] == 'silent')
    nn = sum(1 for r in results if r[1] in ('neutral', 'repair') and r[2] != 'skipped')
    skipped = sum(1 for r in results if r[2] == 'skipped')
    misses = [r for r in results if r[2] in ('MISS', 'FALSE-ALARM', 'error')]
    lines = [f'SELFCHECK-MISS property={pid} variant={r[0]} kind={r[1]} result={r[2]} {r[3]}' for r in misses]
    lines.append(f'selfcheck {pid}: detected {det}/{nb} breaking, silent {sil}/{nn} neutral+repair, skipped {skipped}')
    return {'summary': f'detected {det}/{nb} breaking, silent {sil}/{nn} neutral, skipped {skipped}',
            'detail': [{'variant': r[0], 'kind': r[1], 'result': r[2], 'info': r[3]} for r in sorted(results)],
            'misses': misses, 'lines': lines}
