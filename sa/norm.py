"""Decision-tree normal form.

Small first-order functions (membership tests, comparisons, single
assignments, returns) are executed *symbolically over their syntax* into a list
of paths  (ordered guard literals) -> (stores / return term).  Terms are nested
tuples in a language shared by the Python and the JavaScript front ends, so two
implementations can be compared for all inputs at once.  Nothing is evaluated
on concrete values.
"""
from __future__ import annotations

import ast
from typing import Any, Dict, List, Optional, Tuple

from .project import AnalysisError, FuncInfo, Project, src

Term = Any


def canon_key(k: str) -> str:
    return str(k).replace('_', '').lower()


def const(v) -> Term:
    if isinstance(v, bool):
        return ('const', v)
    if isinstance(v, (int, float)) and float(v) == int(v):
        return ('const', int(v))
    return ('const', v)


def t_not(t: Term) -> Term:
    if isinstance(t, tuple) and t and t[0] == 'not':
        return t[1]
    if isinstance(t, tuple) and t and t[0] == 'const' and isinstance(t[1], bool):
        return ('const', not t[1])
    return ('not', t)


def freeze(x):
    if isinstance(x, dict):
        return tuple(sorted((k, freeze(v)) for k, v in x.items()))
    if isinstance(x, (list, tuple)):
        return tuple(freeze(v) for v in x)
    if isinstance(x, (set, frozenset)):
        return tuple(sorted((freeze(v) for v in x), key=repr))
    return x


def fold(t: Term):
    """Constant folding of comparisons between constants (needed after unrolling loops over constant collections)."""
    if isinstance(t, tuple) and t and t[0] == 'cmp' and t[1] in ('==', '!=', 'is', 'isnot') and isinstance(t[2], tuple) and isinstance(t[3], tuple) \
            and t[2][:1] == ('const',) and t[3][:1] == ('const',):
        eq = t[2][1] == t[3][1]
        return ('const', eq if t[1] in ('==', 'is') else not eq)
    if isinstance(t, tuple) and t and t[0] == 'not' and isinstance(t[1], tuple) and t[1][:1] == ('const',) and isinstance(t[1][1], bool):
        return ('const', not t[1][1])
    if isinstance(t, tuple) and t and t[0] == 'not' and isinstance(t[1], tuple) and t[1][:1] == ('has',):
        inner = fold(t[1])
        if inner[:1] == ('const',):
            return ('const', not inner[1])
    if isinstance(t, tuple) and len(t) == 3 and t[0] == 'has' and isinstance(t[2], tuple) and t[2][:1] == ('const',):
        elems = const_elements(t[1])
        if elems is not None and all(isinstance(x, tuple) and x[:1] == ('const',) for x in elems):
            return ('const', any(x[1] == t[2][1] for x in elems))
    return t


def relookup(t: Term) -> Term:
    """table lookups whose key became a constant once a call result was split into its paths"""
    if isinstance(t, tuple):
        t = tuple(relookup(x) if isinstance(x, (tuple, dict)) else x for x in t)
        if len(t) == 3 and t[0] == 'get' and isinstance(t[1], tuple) and t[1][:1] == ('dict',) and isinstance(t[2], tuple) and t[2][:1] == ('const',):
            k = canon_key(t[2][1])
            if k in t[1][1]:
                return t[1][1][k]
    elif isinstance(t, dict):
        return {k: relookup(v) if isinstance(v, (tuple, dict)) else v for k, v in t.items()}
    return t


def split_cases(t: Term):
    """A term that contains the result of a multi-path call (`('cases', ((conds, value), …))`) stands for one term per path: returns
    [(extra conditions, term)] with every `cases` node replaced by the value of one of its paths (all combinations)."""
    def find(x):
        if isinstance(x, tuple):
            if x[:1] == ('cases',):
                return x
            for y in x:
                r = find(y)
                if r is not None:
                    return r
        elif isinstance(x, dict):
            for y in x.values():
                r = find(y)
                if r is not None:
                    return r
        return None

    def subst(x, node, val):
        if x is node:
            return val
        if isinstance(x, tuple):
            return tuple(subst(y, node, val) for y in x)
        if isinstance(x, dict):
            return {k: subst(v, node, val) for k, v in x.items()}
        return x
    node = find(t)
    if node is None:
        return [([], t)]
    out = []
    for conds, val in node[1]:
        for more, t2 in split_cases(subst(t, node, val)):
            out.append((list(conds) + more, t2))
    return out


def const_elements(t: Term):
    """Elements of a constant collection term, in iteration order; None if not constant."""
    def is_const(x) -> bool:
        if isinstance(x, tuple) and x[:1] == ('const',):
            return True
        return isinstance(x, tuple) and len(x) == 2 and x[0] == 'seq' and isinstance(x[1], tuple) and all(is_const(y) for y in x[1])
    if isinstance(t, tuple) and t and t[0] in ('set', 'seq') and isinstance(t[1], tuple) and all(is_const(x) for x in t[1]):
        return list(t[1])
    return None


def _neg_atom(t):
    return t[1] if isinstance(t, tuple) and t and t[0] == 'not' else ('not', t)


def _clauses(c, v):
    """CNF clauses (lists of (atom, truth)) of the assertion `c is v`; atoms are comparison / membership terms, `>=` is read as the
    negation of the reversed `>`."""
    if isinstance(c, tuple) and c:
        if c[0] == 'not':
            return _clauses(c[1], not v)
        if c[0] == 'const' and isinstance(c[1], bool):
            return [] if c[1] == v else [[]]
        if c[0] == 'cmp' and c[1] == '>=':
            return _clauses(('cmp', '>', c[3], c[2]), not v)
        if c[0] == 'cmp' and c[1] == '!=':
            return _clauses(('cmp', '==', c[2], c[3]), not v)
        if (c[0] == 'and' and v) or (c[0] == 'or' and not v):
            out = []
            for x in c[1:]:
                out += _clauses(x, v)
            return out
        if (c[0] == 'or' and v) or (c[0] == 'and' and not v):
            # one clause if every disjunct is a literal; otherwise keep the compound as an opaque atom
            lits = []
            for x in c[1:]:
                sub = _clauses(x, v)
                if len(sub) == 1 and len(sub[0]) == 1:
                    lits.append(sub[0][0])
                elif not sub:
                    return []           # a disjunct that is trivially true
                else:
                    return [[(c, v)]]
            return [lits]
    return [[(c, v)]]


def simplify_conds(conds):
    """Unit propagation over the path condition: the literals that must hold (sorted) plus what is left of the compound conditions,
    or None when the condition is contradictory (an infeasible path of an if/elif chain whose tests overlap)."""
    clauses = []
    for c, v in conds:
        clauses += _clauses(c, v)
    units = {}
    changed = True
    while changed:
        changed = False
        rest = []
        for cl in clauses:
            if not cl:
                return None
            if len(cl) == 1:
                a, t = cl[0]
                if a in units and units[a] != t:
                    return None
                if a not in units:
                    units[a] = t
                    changed = True
                continue
            new = []
            sat = False
            for a, t in cl:
                if a in units:
                    if units[a] == t:
                        sat = True
                        break
                    continue
                new.append((a, t))
            if sat:
                changed = changed or True
                continue
            if len(new) != len(cl):
                changed = True
            rest.append(new)
        clauses = rest
    out = sorted(units.items(), key=repr)
    for cl in sorted(clauses, key=repr):
        out.append((('or',) + tuple(a if t else ('not', a) for a, t in cl), True))
    return out


class Path:
    def __init__(self, conds=None, env=None, ret=None, returned=False):
        self.conds: List[Tuple[Term, bool]] = list(conds or [])
        self.env: Dict[str, Term] = dict(env or {})
        self.ret: Term = ret
        self.returned = returned

    def fork(self):
        q = Path(self.conds, self.env, self.ret, self.returned)
        q.broken = getattr(self, 'broken', False)
        return q

    def summary(self):
        return (tuple(self.conds), freeze(self.ret))


class PyNorm:
    """Python front end."""

    MAX_INLINE = 4

    def __init__(self, proj: Project, fi: FuncInfo, depth: int = 0):
        self.proj = proj
        self.fi = fi
        self.depth = depth

    # ------------------------------------------------------------------ exec
    def run(self, args: Optional[List[Term]] = None) -> List[Path]:
        params = self.fi.params
        if self.fi.cls is not None and params and params[0] in ('self', 'cls'):
            params = params[1:]
        env = {}
        for i, p in enumerate(params):
            env[p] = args[i] if args is not None and i < len(args) else ('param', i)
        paths = self._block(self.fi.node.body, [Path(env=env)])
        for p in paths:
            if not p.returned:
                p.ret = const(None)
        out_ = []
        for p_ in paths:
            sc = simplify_conds(p_.conds)
            if sc is None:
                continue                 # infeasible combination of branch outcomes
            p_.conds = sc
            out_.append(p_)
        paths = out_
        return paths

    def _block(self, stmts, paths: List[Path]) -> List[Path]:
        for s in stmts:
            live = [p for p in paths if not p.returned and not getattr(p, 'broken', False)]
            done = [p for p in paths if p.returned or getattr(p, 'broken', False)]
            if not live:
                return done
            paths = done + self._stmt(s, live)
        return paths

    def _stmt(self, s, paths: List[Path]) -> List[Path]:
        if isinstance(s, ast.Expr):
            if isinstance(s.value, ast.Constant):
                return paths           # docstring
            raise AnalysisError(f'norm: unsupported expression statement {src(s)!r} in {self.fi.short}')
        if isinstance(s, (ast.Assign, ast.AnnAssign)):
            targets = s.targets if isinstance(s, ast.Assign) else [s.target]
            if s.value is None:
                return paths
            out = []
            for p in paths:
                v = self.term(s.value, p.env)
                for conds, v2 in split_cases(v):
                    q = p.fork() if conds else p
                    q.conds += conds
                    for t in targets:
                        self._store(t, self._relookup(v2), q)
                    out.append(q)
            return out
        if isinstance(s, ast.For) and not s.orelse and (isinstance(s.target, ast.Name) or
                                                        (isinstance(s.target, ast.Tuple) and all(isinstance(e, ast.Name) for e in s.target.elts))):
            out = []
            for p in paths:
                elems = const_elements(self.term(s.iter, p.env))
                if elems is None:
                    raise AnalysisError(f'norm: loop over a non-constant collection in {self.fi.short}: {src(s.iter)[:40]!r}')
                live = [p]
                for el in elems:
                    nxt = []
                    for q in live:
                        if q.returned or getattr(q, 'broken', False):
                            nxt.append(q)
                            continue
                        if isinstance(s.target, ast.Name):
                            q.env[s.target.id] = el
                        else:
                            parts = const_elements(el)
                            if parts is None or len(parts) != len(s.target.elts):
                                raise AnalysisError(f'norm: cannot unpack a table row in {self.fi.short}: {src(s.iter)[:40]!r}')
                            for nm, part in zip(s.target.elts, parts):
                                q.env[nm.id] = part
                        nxt += self._block(s.body, [q])
                    live = nxt
                for q in live:
                    q.broken = False
                out += live
            return out
        if isinstance(s, ast.Break):
            for p in paths:
                p.broken = True
            return paths
        if isinstance(s, ast.If):
            out = []
            for p0 in paths:
                for conds, c in split_cases(self.term(s.test, p0.env)):
                    p = p0.fork() if conds else p0
                    p.conds += conds
                    c = fold(self._relookup(c))
                    if isinstance(c, tuple) and c[:1] == ('const',) and isinstance(c[1], bool):
                        out += self._block(s.body if c[1] else s.orelse, [p]) if (s.body if c[1] else s.orelse) else [p]
                        continue
                    pt, pf = p.fork(), p.fork()
                    pt.conds.append((c, True))
                    pf.conds.append((c, False))
                    out += self._block(s.body, [pt])
                    out += self._block(s.orelse, [pf]) if s.orelse else [pf]
            return out
        if isinstance(s, ast.Return):
            out = []
            for p in paths:
                v = self.term(s.value, p.env) if s.value is not None else const(None)
                for conds, v2 in split_cases(v):
                    q = p.fork() if conds else p
                    q.conds += conds
                    q.ret = self._relookup(v2)
                    q.returned = True
                    out.append(q)
            return out
        if isinstance(s, ast.Pass):
            return paths
        raise AnalysisError(f'norm: unsupported statement {type(s).__name__} in {self.fi.short}: {src(s)[:60]!r}')

    def _relookup(self, t: Term) -> Term:
        return relookup(t)

    def _store(self, target, v: Term, p: Path) -> None:
        if isinstance(target, ast.Name):
            p.env[target.id] = v
            return
        if isinstance(target, (ast.Tuple, ast.List)) and isinstance(v, tuple) and v[:1] == ('seq',) and len(v[1]) == len(target.elts):
            for t_, part in zip(target.elts, v[1]):
                self._store(t_, part, p)
            return
        if isinstance(target, ast.Subscript) and isinstance(target.value, ast.Name):
            base = p.env.get(target.value.id)
            key = self.term(target.slice, p.env)
            if isinstance(base, tuple) and base[0] == 'dict' and key[0] == 'const':
                d = dict(base[1])
                d[canon_key(key[1])] = v
                p.env[target.value.id] = ('dict', d)
                return
        raise AnalysisError(f'norm: unsupported store target {src(target)!r} in {self.fi.short}')

    # ------------------------------------------------------------------ terms
    def term(self, e, env) -> Term:
        if isinstance(e, ast.Constant):
            return const(e.value)
        if isinstance(e, ast.Name):
            if e.id in env:
                return env[e.id]
            return self._global(e.id)
        if isinstance(e, ast.Dict):
            d = {}
            for k, v in zip(e.keys, e.values):
                kt = self.term(k, env)
                if kt[0] != 'const':
                    raise AnalysisError(f'norm: non-constant dict key in {self.fi.short}')
                d[canon_key(kt[1])] = self.term(v, env)
            return ('dict', d)
        if isinstance(e, (ast.Set, ast.List, ast.Tuple)):
            return ('set' if isinstance(e, ast.Set) else 'seq', tuple(self.term(x, env) for x in e.elts))
        if isinstance(e, ast.UnaryOp):
            if isinstance(e.op, ast.Not):
                return t_not(self.term(e.operand, env))
            if isinstance(e.op, ast.USub):
                return ('neg', self.term(e.operand, env))
        if isinstance(e, ast.BoolOp):
            vals = [self.term(v, env) for v in e.values]
            if isinstance(e.op, ast.Or) and len(vals) == 2 and vals[1] in (('seq', ()), ('dict', {})):
                return vals[0]          # `x or []`
            return ('or' if isinstance(e.op, ast.Or) else 'and',) + tuple(vals)
        if isinstance(e, ast.BinOp):
            opn = {ast.Add: '+', ast.Sub: '-', ast.Mult: '*', ast.Div: '/', ast.BitAnd: '&', ast.Mod: '%',
                   ast.Pow: '**', ast.BitOr: '|'}.get(type(e.op))
            if opn is None:
                raise AnalysisError(f'norm: unsupported operator in {src(e)!r}')
            return ('bin', opn, self.term(e.left, env), self.term(e.right, env))
        if isinstance(e, ast.Compare):
            if len(e.ops) != 1:
                left = e.left
                parts = []
                for op, comp in zip(e.ops, e.comparators):
                    parts.append(self._cmp(op, self.term(left, env), self.term(comp, env)))
                    left = comp
                return ('and',) + tuple(parts)
            return self._cmp(e.ops[0], self.term(e.left, env), self.term(e.comparators[0], env))
        if isinstance(e, ast.SetComp) or isinstance(e, ast.ListComp) or isinstance(e, ast.GeneratorExp):
            return self._comp(e, env)
        if isinstance(e, ast.Subscript):
            base = self.term(e.value, env)
            key = self.term(e.slice, env)
            if isinstance(base, tuple) and base[0] == 'dict' and key[0] == 'const' and canon_key(key[1]) in base[1]:
                return base[1][canon_key(key[1])]
            if key[0] == 'const':
                key = ('const', canon_key(key[1])) if isinstance(key[1], str) else key
            return ('get', base, key)
        if isinstance(e, ast.Attribute):
            return ('attr', self.term(e.value, env), e.attr)
        if isinstance(e, ast.Call):
            return self._call(e, env)
        if isinstance(e, ast.IfExp):
            return ('ite', self.term(e.test, env), self.term(e.body, env), self.term(e.orelse, env))
        raise AnalysisError(f'norm: unsupported expression {type(e).__name__}: {src(e)[:60]!r} in {self.fi.short}')

    def _cmp(self, op, a: Term, b: Term) -> Term:
        if isinstance(op, ast.In):
            return ('has', b, a)
        if isinstance(op, ast.NotIn):
            return t_not(('has', b, a))
        sym = {ast.Gt: '>', ast.GtE: '>=', ast.Lt: '<', ast.LtE: '<=', ast.Eq: '==', ast.NotEq: '!=',
               ast.Is: 'is', ast.IsNot: 'isnot'}.get(type(op))
        if sym is None:
            raise AnalysisError('norm: unsupported comparison')
        # canonical direction: a < b  ==  b > a
        if sym == '<':
            return ('cmp', '>', b, a)
        if sym == '<=':
            return ('cmp', '>=', b, a)
        return ('cmp', sym, a, b)

    def _comp(self, e, env) -> Term:
        if len(e.generators) == 1 and not e.generators[0].ifs and isinstance(e.generators[0].target, ast.Name):
            g = e.generators[0]
            var = g.target.id
            it = self.term(g.iter, env)
            elt = e.elt
            if (isinstance(elt, ast.Call) and isinstance(elt.func, ast.Attribute) and isinstance(elt.func.value, ast.Name)
                    and elt.func.value.id == var and not elt.args):
                kind = 'set' if isinstance(e, ast.SetComp) else 'list'
                return ('map', kind, elt.func.attr.lower().replace('tolowercase', 'lower'), it)
            if isinstance(elt, ast.Name) and elt.id == var:
                return ('map', 'set' if isinstance(e, ast.SetComp) else 'list', 'id', it)
        raise AnalysisError(f'norm: unsupported comprehension {src(e)[:60]!r} in {self.fi.short}')

    def _global(self, name: str) -> Term:
        mi = self.fi.module
        if name in mi.globals_assigned and len(mi.globals_assigned[name]) == 1:
            node = mi.globals_assigned[name][0]
            val = node.value
            if val is not None:
                return PyNorm(self.proj, self.fi, self.depth).term(val, {})
        r = self.proj.resolve_name(mi, name)
        if r and r[0] == 'global':
            m2, n2 = r[1], r[2]
            if n2 in m2.globals_assigned and len(m2.globals_assigned[n2]) == 1:
                node = m2.globals_assigned[n2][0]
                if node.value is not None:
                    anyf = next(iter(m2.functions.values()), None)
                    if anyf is not None:
                        return PyNorm(self.proj, anyf, self.depth).term(node.value, {})
        return ('global', name)

    def _call(self, e: ast.Call, env) -> Term:
        args = [self.term(a, env) for a in e.args]
        if isinstance(e.func, ast.Attribute) and isinstance(e.func.value, ast.Name) and e.func.value.id == 'dict' and e.func.attr == 'fromkeys' and len(args) in (1, 2) and not e.keywords:
            keys = const_elements(args[0])
            if keys is not None and all(k[:1] == ('const',) for k in keys):
                return ('dict', {canon_key(k[1]): (args[1] if len(args) == 2 else const(None)) for k in keys})
        if e.keywords:
            raise AnalysisError(f'norm: keyword arguments unsupported in {src(e)[:60]!r}')
        if isinstance(e.func, ast.Name):
            fn = e.func.id
            if fn in env:
                raise AnalysisError('norm: call of a local value')
            if fn == 'abs' and len(args) == 1:
                return ('abs', args[0])
            if fn == 'bool' and len(args) == 1:
                a = args[0]
                if isinstance(a, tuple) and a[0] == 'bin' and a[1] == '&':
                    x, y = sorted([a[2], a[3]], key=repr)
                    return ('intersects', x, y)
                return ('bool', a)
            if fn in ('set', 'frozenset', 'list') and len(args) == 1:
                a = args[0]
                if isinstance(a, tuple) and a[0] == 'map':
                    return ('map', 'set' if fn != 'list' else 'list', a[2], a[3])
                return (fn, a)
            r = self.proj.resolve_name(self.fi.module, fn)
            if r and r[0] == 'func' and self.depth < self.MAX_INLINE:
                sub = PyNorm(self.proj, r[1], self.depth + 1)
                paths = sub.run(args)
                if len(paths) == 1:
                    return paths[0].ret
                return ('cases', tuple((tuple(p.conds), freeze(p.ret)) for p in paths))
            return ('call', fn) + tuple(args)
        if isinstance(e.func, ast.Attribute):
            recv = self.term(e.func.value, env)
            if e.func.attr == 'isdisjoint' and len(args) == 1:
                x, y = sorted([recv, args[0]], key=repr)
                return t_not(('intersects', x, y))
            if e.func.attr == 'intersection' and len(args) == 1:
                return ('bin', '&', recv, args[0])
            return ('method', e.func.attr, recv) + tuple(args)
        raise AnalysisError(f'norm: unsupported call {src(e)[:60]!r}')


def py_paths(proj: Project, fi: FuncInfo) -> List[Path]:
    return PyNorm(proj, fi).run()


def show(t: Term) -> str:
    """Readable rendering of a term (for evidence and reports)."""
    if not isinstance(t, tuple):
        return repr(t)
    if not t:
        return '()'
    h = t[0]
    if not isinstance(h, str):
        return '(' + ', '.join(show(x) for x in t) + ')'
    if h == 'const':
        return repr(t[1])
    if h == 'param':
        return f'arg{t[1]}'
    if h == 'cmp':
        return f'({show(t[2])} {t[1]} {show(t[3])})'
    if h == 'has':
        return f'({show(t[2])} in {show(t[1])})'
    if h == 'not':
        return f'not {show(t[1])}'
    if h == 'dict':
        items = t[1].items() if isinstance(t[1], dict) else t[1]
        return '{' + ', '.join(f'{k}: {show(v)}' for k, v in items) + '}'
    if h == 'bin':
        return f'({show(t[2])} {t[1]} {show(t[3])})'
    return h + '(' + ', '.join(show(x) for x in t[1:]) + ')'


# =============================================================================
# JavaScript front end (AST from sa.jsmini) into the same term language
# =============================================================================

class JsNorm:
    MAX_INLINE = 4

    def __init__(self, toks, func_stmt, depth: int = 0):
        from . import jsmini
        self.js = jsmini
        self.toks = toks
        self.f = func_stmt         # ('func', name, params, body, line)
        self.depth = depth

    @property
    def name(self):
        return self.f[1]

    def run(self, args=None) -> List[Path]:
        env = {}
        for i, p in enumerate(self.f[2]):
            if not isinstance(p, str):
                raise AnalysisError(f'js norm: destructuring parameter in {self.name}')
            env[p] = args[i] if args is not None and i < len(args) else ('param', i)
        paths = self._block(self.f[3], [Path(env=env)])
        for p in paths:
            if not p.returned:
                p.ret = const(None)
        out_ = []
        for p_ in paths:
            sc = simplify_conds(p_.conds)
            if sc is None:
                continue                 # infeasible combination of branch outcomes
            p_.conds = sc
            out_.append(p_)
        paths = out_
        return paths

    def _block(self, stmts, paths):
        i = 0
        while i < len(stmts):
            s = stmts[i]
            live = [p for p in paths if not p.returned and not getattr(p, 'broken', False)]
            done = [p for p in paths if p.returned or getattr(p, 'broken', False)]
            if not live:
                return done
            # idiom: for (const t of S) { if (X.has(t)) return true; }  return false;
            if s[0] == 'forof' and i + 1 < len(stmts):
                m = self._intersects_idiom(s, stmts[i + 1], live)
                if m is not None:
                    return done + m
            paths = done + self._stmt(s, live)
            i += 1
        return paths

    def _intersects_idiom(self, loop, nxt, paths):
        _k, var, it, body, _l = loop
        if not isinstance(var, str):
            return None
        b = body[1] if body[0] == 'block' else [body]
        if len(b) != 1 or b[0][0] != 'if' or b[0][3] is not None:
            return None
        test, then = b[0][1], b[0][2]
        then_s = then[1] if then[0] == 'block' else [then]
        if len(then_s) != 1 or then_s[0][0] != 'return' or then_s[0][1] != ('bool', True):
            return None
        if nxt[0] != 'return' or nxt[1] != ('bool', False):
            return None
        if not (test[0] == 'call' and test[1][0] == 'member' and test[1][2] == 'has' and test[2] == [('name', var)]):
            return None
        out = []
        for p in paths:
            x = self.term(test[1][1], p.env)
            y = self.term(it, p.env)
            a, b2 = sorted([x, y], key=repr)
            p.ret = ('intersects', a, b2)
            p.returned = True
            out.append(p)
        return out

    def _stmt(self, s, paths):
        k = s[0]
        if k == 'empty':
            return paths
        if k == 'block':
            return self._block(s[1], paths)
        if k == 'decl':
            _k, _kw, target, init, _l = s
            arr = isinstance(target, tuple) and target[:1] == ('apattern',) and all(isinstance(n_, str) for n_ in target[1])
            if not isinstance(target, str) and not arr:
                raise AnalysisError(f'js norm: destructuring in {self.name}')
            out = []
            for p in paths:
                for conds, v in split_cases(self.term(init, p.env) if init is not None else const(None)):
                    q = p.fork() if conds else p
                    q.conds += conds
                    v = relookup(v)
                    if arr:
                        # const [a, b] = <array of known length>
                        if not (isinstance(v, tuple) and v[:1] == ('seq',) and len(v[1]) == len(target[1])):
                            raise AnalysisError(f'js norm: destructuring of a value that is not an array literal of {len(target[1])} in {self.name}')
                        for n_, part in zip(target[1], v[1]):
                            q.env[n_] = part
                    else:
                        q.env[target] = v
                    out.append(q)
            return out
        if k == 'expr':
            e = s[1]
            if e[0] == 'assign' and e[1] == '=':
                out = []
                for p in paths:
                    for conds, v in split_cases(self.term(e[3], p.env)):
                        q = p.fork() if conds else p
                        q.conds += conds
                        self._store(e[2], relookup(v), q)
                        out.append(q)
                return out
            raise AnalysisError(f'js norm: unsupported expression statement in {self.name} line {s[2]}')
        if k == 'break':
            for p in paths:
                p.broken = True
            return paths
        if k == 'forof' and isinstance(s[1], str):
            out = []
            for p in paths:
                elems = const_elements(self.term(s[2], p.env))
                if elems is None:
                    raise AnalysisError(f'js norm: loop over a non-constant collection in {self.name}')
                live = [p]
                body = s[3][1] if s[3][0] == 'block' else [s[3]]
                for el in elems:
                    nxt = []
                    for q in live:
                        if q.returned or getattr(q, 'broken', False):
                            nxt.append(q)
                            continue
                        q.env[s[1]] = el
                        nxt += self._block(body, [q])
                    live = nxt
                for q in live:
                    q.broken = False
                out += live
            return out
        if k == 'if':
            out = []
            for p0 in paths:
                for conds, c in split_cases(self.term(s[1], p0.env)):
                    p = p0.fork() if conds else p0
                    p.conds += conds
                    c = fold(relookup(c))
                    if isinstance(c, tuple) and c[:1] == ('const',) and isinstance(c[1], bool):
                        br = s[2] if c[1] else s[3]
                        out += self._stmt(br, [p]) if br is not None else [p]
                        continue
                    pt, pf = p.fork(), p.fork()
                    pt.conds.append((c, True))
                    pf.conds.append((c, False))
                    out += self._stmt(s[2], [pt])
                    out += self._stmt(s[3], [pf]) if s[3] is not None else [pf]
            return out
        if k == 'return':
            out = []
            for p in paths:
                for conds, v in split_cases(self.term(s[1], p.env) if s[1] is not None else const(None)):
                    q = p.fork() if conds else p
                    q.conds += conds
                    q.ret = fold(relookup(v))
                    q.returned = True
                    out.append(q)
            return out
        raise AnalysisError(f'js norm: unsupported statement {k} in {self.name}')

    def _store(self, target, v, p):
        if target[0] == 'name':
            p.env[target[1]] = v
            return
        if target[0] == 'member' and target[1][0] == 'name':
            base = p.env.get(target[1][1])
            if isinstance(base, tuple) and base[0] == 'dict':
                d = dict(base[1])
                d[canon_key(target[2])] = v
                p.env[target[1][1]] = ('dict', d)
                return
        if target[0] == 'index' and target[1][0] == 'name':
            base = p.env.get(target[1][1])
            key = self.term(target[2], p.env)
            if isinstance(base, tuple) and base[0] == 'dict' and isinstance(key, tuple) and key[:1] == ('const',) and isinstance(key[1], str):
                d = dict(base[1])
                d[canon_key(key[1])] = v
                p.env[target[1][1]] = ('dict', d)
                return
        raise AnalysisError(f'js norm: unsupported store in {self.name}')

    def term(self, e, env) -> Term:
        k = e[0]
        if k == 'num':
            return const(e[1])
        if k == 'str':
            return const(e[1])
        if k == 'bool':
            return const(e[1])
        if k == 'null':
            return const(None)
        if k == 'name':
            if e[1] in env:
                return env[e[1]]
            d = self.js.find_top_const(self.toks, e[1])
            if d is not None and d[0] == 'decl' and d[3] is not None:
                return JsNorm(self.toks, ('func', '<top>', [], [], 0), self.depth).term(d[3], {})
            return ('global', e[1])
        if k == 'obj':
            d = {}
            for key, v in e[1]:
                if not isinstance(key, str):
                    raise AnalysisError('js norm: computed/spread object key')
                d[canon_key(key)] = self.term(v, env)
            return ('dict', d)
        if k == 'arr':
            if len(e[1]) == 1 and e[1][0][0] == 'spread':
                # [...X]: the elements of X as an array; as a collection of values it is X
                return self.term(e[1][0][1], env)
            return ('seq', tuple(self.term(x, env) for x in e[1]))
        if k == 'un':
            if e[1] == '!':
                return t_not(self.term(e[2], env))
            if e[1] == '-':
                return ('neg', self.term(e[2], env))
            raise AnalysisError(f'js norm: unary {e[1]}')
        if k == 'bin':
            op = e[1]
            a, b = self.term(e[2], env), self.term(e[3], env)
            if op == '||':
                if b in (('seq', ()), ('dict', {})):
                    return a
                return ('or', a, b)
            if op == '&&':
                return ('and', a, b)
            if op in ('>', '>='):
                return ('cmp', op, a, b)
            if op == '<':
                return ('cmp', '>', b, a)
            if op == '<=':
                return ('cmp', '>=', b, a)
            if op in ('===', '=='):
                return ('cmp', '==', a, b)
            if op in ('!==', '!='):
                return ('cmp', '!=', a, b)
            if op in ('+', '-', '*', '/', '%', '&', '|', '**'):
                return ('bin', op, a, b)
            raise AnalysisError(f'js norm: operator {op}')
        if k == 'cond':
            return ('ite', self.term(e[1], env), self.term(e[2], env), self.term(e[3], env))
        if k == 'member':
            base = self.term(e[1], env)
            if isinstance(base, tuple) and base[0] == 'dict' and canon_key(e[2]) in base[1]:
                return base[1][canon_key(e[2])]
            return ('get', base, ('const', canon_key(e[2])))
        if k == 'index':
            base = self.term(e[1], env)
            key = self.term(e[2], env)
            if key[0] == 'const' and isinstance(key[1], str):
                key = ('const', canon_key(key[1]))
            return ('get', base, key)
        if k == 'new':
            if e[1] == ('name', 'Set') and len(e[2]) == 1:
                a = self.term(e[2][0], env)
                if isinstance(a, tuple) and a[0] == 'map':
                    return ('map', 'set', a[2], a[3])
                if isinstance(a, tuple) and a[0] == 'seq':
                    return ('set', a[1])
                return ('set', a)
            raise AnalysisError('js norm: unsupported constructor')
        if k == 'call':
            return self._call(e, env)
        raise AnalysisError(f'js norm: unsupported expression {k}')

    def _call(self, e, env):
        f, args = e[1], e[2]
        if f[0] == 'member':
            recv_e, meth = f[1], f[2]
            if recv_e == ('name', 'Math') and meth == 'abs' and len(args) == 1:
                return ('abs', self.term(args[0], env))
            recv = self.term(recv_e, env)
            if meth == 'has' and len(args) == 1:
                return ('has', recv, self.term(args[0], env))
            if meth == 'includes' and len(args) == 1:
                return ('has', recv, self.term(args[0], env))
            if meth == 'some' and len(args) == 1 and args[0][0] == 'arrow' and len(args[0][1]) == 1:
                # xs.some(t => S.has(f(t)))  ==  S intersects {f(t) for t in xs}   (f = identity / toLowerCase / trim …)
                _a, ps, body = args[0]
                if body[0] == 'block' and len(body[1]) == 1 and body[1][0][0] == 'return':
                    body = body[1][0][1]
                if body[0] == 'call' and body[1][0] == 'member' and body[1][2] in ('has', 'includes') and len(body[2]) == 1:
                    x = body[2][0]
                    xform = None
                    if x == ('name', ps[0]):
                        xform = 'id'
                    elif x[0] == 'call' and x[1][0] == 'member' and x[1][1] == ('name', ps[0]) and not x[2]:
                        xform = {'toLowerCase': 'lower', 'toUpperCase': 'upper', 'trim': 'strip'}.get(x[1][2], x[1][2])
                    if xform is not None and ('name', ps[0]) not in set(n_ for n_ in self.js.walk(body[1][1]) if isinstance(n_, tuple) and n_[:1] == ('name',)):
                        other = self.term(body[1][1], env)
                        # the identity image of a set is the set
                        mine = recv if xform == 'id' and isinstance(recv, tuple) and recv[:1] in (('set',), ('frozenset',)) else ('map', 'set', xform, recv)
                        a, b2 = sorted([other, mine], key=repr)
                        return ('intersects', a, b2)
            if meth == 'map' and len(args) == 1 and args[0][0] == 'arrow':
                _a, ps, body = args[0]
                if len(ps) == 1 and body[0] == 'call' and body[1][0] == 'member' and body[1][1] == ('name', ps[0]) and not body[2]:
                    m = body[1][2]
                    m = {'toLowerCase': 'lower', 'toUpperCase': 'upper', 'trim': 'strip'}.get(m, m)
                    return ('map', 'list', m, recv)
            return ('method', meth, recv) + tuple(self.term(a, env) for a in args)
        if f[0] == 'name':
            if f[1] in env:
                raise AnalysisError('js norm: call of a local value')
            targs = [self.term(a, env) for a in args]
            fn = self.js.find_function(self.toks, f[1])
            if fn is not None and self.depth < self.MAX_INLINE:
                paths = JsNorm(self.toks, fn, self.depth + 1).run(targs)
                if len(paths) == 1:
                    return paths[0].ret
                return ('cases', tuple((tuple(p.conds), freeze(p.ret)) for p in paths))
            return ('call', f[1]) + tuple(targs)
        raise AnalysisError('js norm: unsupported callee')


def equivalent_paths(pa, pb, max_atoms: int = 14) -> bool:
    """Are two decision trees (lists of (conditions, result) as given by Path.summary()) the same function of their atomic conditions?
    Decided by truth table over the atoms that occur (membership tests `c in X`, comparisons, opaque terms); `intersects(X, {a, b})` is
    read as `a in X or b in X`.  Sound for equivalence: True only if every assignment of the atoms selects equal results on both sides."""
    import itertools

    def const_set(t):
        els = const_elements(t)
        if els is not None and all(isinstance(x, tuple) and x[:1] == ('const',) for x in els):
            return els
        return None

    def as_members(t):
        """intersects(X, S) with S constant -> [has(X, s) …]; else None"""
        if isinstance(t, tuple) and len(t) == 3 and t[0] == 'intersects':
            for x, s_ in ((t[1], t[2]), (t[2], t[1])):
                cs = const_set(s_)
                if cs is not None and const_set(x) is None:
                    return [('has', x, c) for c in cs]
        return None
    atoms = {}

    def note(t):
        t = freeze(t)
        ms = as_members(t)
        if ms is not None:
            for m in ms:
                atoms.setdefault(repr(freeze(m)), None)
        elif isinstance(t, tuple) and t[:1] == ('not',):
            note(t[1])
        else:
            atoms.setdefault(repr(t), None)

    def ev(t, asg):
        t = freeze(t)
        ms = as_members(t)
        if ms is not None:
            return any(asg[repr(freeze(m))] for m in ms)
        if isinstance(t, tuple) and t[:1] == ('not',):
            return not ev(t[1], asg)
        return asg[repr(t)]

    def is_bool_term(t):
        t = freeze(t)
        return as_members(t) is not None or (isinstance(t, tuple) and t[:1] == ('has',)) or (isinstance(t, tuple) and t[:1] == ('not',) and is_bool_term(t[1]))
    for paths in (pa, pb):
        for conds, ret in paths:
            for c, _v in conds:
                note(c)
            if is_bool_term(ret):
                note(ret)
    if len(atoms) > max_atoms:
        return False
    names = sorted(atoms)

    def result(paths, asg):
        for conds, ret in paths:
            if all(ev(c, asg) == v for c, v in conds):
                if is_bool_term(ret):
                    return repr(('const', bool(ev(ret, asg))))
                return repr(freeze(ret))
        return 'no-path'
    for bits in itertools.product((False, True), repeat=len(names)):
        asg = dict(zip(names, bits))
        if result(pa, asg) != result(pb, asg):
            return False
    return True
