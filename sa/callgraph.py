"""Callee resolution and the package call graph."""
from __future__ import annotations

import ast
from typing import Dict, Iterable, List, Optional, Set, Tuple

import networkx as nx

from .project import ClassInfo, FuncInfo, ModuleInfo, Project, ancestors, dotted, src

BUILTINS = set(dir(__builtins__)) if not isinstance(__builtins__, dict) else set(__builtins__)


def own_nodes(fnode) -> Iterable[ast.AST]:
    """Walk a function body without descending into nested defs / lambdas / classes."""
    todo = list(fnode.body) if hasattr(fnode, 'body') and isinstance(fnode.body, list) else [fnode.body]
    while todo:
        n = todo.pop()
        yield n
        for c in ast.iter_child_nodes(n):
            if isinstance(c, (ast.FunctionDef, ast.AsyncFunctionDef, ast.ClassDef)):
                yield c      # the def statement itself, not its body
                continue
            if isinstance(c, ast.Lambda):
                continue
            todo.append(c)


def all_nodes(fnode) -> Iterable[ast.AST]:
    """Walk including nested lambdas/comprehensions but not nested defs."""
    todo = list(fnode.body) if isinstance(getattr(fnode, 'body', None), list) else [fnode.body]
    while todo:
        n = todo.pop()
        yield n
        for c in ast.iter_child_nodes(n):
            if isinstance(c, (ast.FunctionDef, ast.AsyncFunctionDef, ast.ClassDef)):
                yield c
                continue
            todo.append(c)


class CallGraph:
    def __init__(self, proj: Project):
        self.proj = proj
        self.g = nx.DiGraph()
        self.sites: Dict[str, List[Tuple[ast.Call, List[object]]]] = {}   # caller qualname -> [(call, targets)]
        self.callers_of: Dict[str, List[Tuple[FuncInfo, ast.Call]]] = {}
        self.total = 0
        self.resolved = 0
        self.unresolved: List[str] = []
        self._local_types: Dict[str, Dict[str, Set[str]]] = {}
        self._fact_cache: Dict[str, tuple] = {}
        self._build()

    # ------------------------------------------------------------ typing-lite
    def local_types(self, fi: FuncInfo) -> Dict[str, Set[str]]:
        """local name -> {class qualnames} from `x = Cls(...)`, `x = factory(...)` whose return is a constructor call,
        and annotated parameters."""
        if fi.qualname in self._local_types:
            return self._local_types[fi.qualname]
        out: Dict[str, Set[str]] = {}
        self._local_types[fi.qualname] = out
        a = fi.node.args
        for arg in a.posonlyargs + a.args + a.kwonlyargs:
            if arg.annotation is not None:
                for n in ast.walk(arg.annotation):
                    d = dotted(n) if isinstance(n, (ast.Name, ast.Attribute)) else None
                    if isinstance(n, ast.Constant) and isinstance(n.value, str):
                        d = n.value
                    if d:
                        r = self.proj.resolve_name(fi.module, d)
                        if r and r[0] == 'class':
                            out.setdefault(arg.arg, set()).add(r[1].qualname)
        for n in own_nodes(fi.node):
            if isinstance(n, ast.Assign) and len(n.targets) == 1 and isinstance(n.targets[0], ast.Name) \
                    and isinstance(n.value, ast.Call):
                for c in self._constructed(fi, n.value, 0):
                    out.setdefault(n.targets[0].id, set()).add(c)
        return out

    def _constructed(self, fi: FuncInfo, call: ast.Call, depth: int) -> Set[str]:
        d = dotted(call.func)
        res: Set[str] = set()
        if d is None:
            return res
        r = self.proj.resolve_name(fi.module, d)
        if r is None:
            return res
        if r[0] == 'class':
            res.add(r[1].qualname)
        elif r[0] == 'func' and depth < 2:
            callee = r[1]
            # factory: returns a local that was constructed / a constructor call
            for n in own_nodes(callee.node):
                if isinstance(n, ast.Return) and n.value is not None:
                    if isinstance(n.value, ast.Call):
                        res |= self._constructed(callee, n.value, depth + 1)
                    elif isinstance(n.value, ast.Name):
                        res |= self.local_types(callee).get(n.value.id, set())
            if callee.cls is not None and callee.name == 'from_transaction':
                res.add(callee.cls.qualname)
        return res

    # ----------------------------------------------------------- resolution
    def resolve(self, fi: FuncInfo, call: ast.Call) -> List[object]:
        """Targets of a call: FuncInfo for in-package functions (a class resolves to its __init__ and
        __post_init__), 'ext:<dotted>' for library/builtin callees, [] when unresolved."""
        f = call.func
        proj = self.proj
        if isinstance(f, ast.Name):
            name = f.id
            # nested function defined in an enclosing function
            outer = fi
            while outer is not None:
                qn = f'{outer.qualname}.{name}'
                if qn in proj.funcs:
                    return [proj.funcs[qn]]
                outer = outer.outer
            r = proj.resolve_name(fi.module, name)
            if r is not None:
                return self._targets_of(r)
            if name in BUILTINS:
                return [f'ext:builtins.{name}']
            return []
        if isinstance(f, ast.Attribute):
            d = dotted(f)
            base = f.value
            meth = f.attr
            # self.method / cls.method
            if isinstance(base, ast.Name) and base.id in ('self', 'cls') and fi.cls is not None:
                m = proj.find_method(fi.cls, meth)
                if m is not None:
                    subs = [proj.find_method(c, meth) for c in proj.subclasses(fi.cls)]
                    return list({x for x in [m] + subs if x is not None})
            if d is not None:
                head = d.split('.')[0]
                lt = self.local_types(fi)
                if head not in lt and not self._is_local(fi, head):
                    r = proj.resolve_name(fi.module, d)
                    if r is not None:
                        return self._targets_of(r)
                if head in lt and d.count('.') == 1:
                    outs = []
                    for cq in lt[head]:
                        m = proj.find_method(proj.classes[cq], meth)
                        if m is not None:
                            outs.append(m)
                    if outs:
                        return outs
            # by-name fallback: methods of that name anywhere in the package
            cands = [c.methods[meth] for c in proj.classes.values() if meth in c.methods]
            if cands and not self._common_method(meth):
                return cands
            return [f'ext:?.{meth}']
        return []

    @staticmethod
    def _common_method(name: str) -> bool:
        return name in {'get', 'items', 'keys', 'values', 'append', 'extend', 'add', 'update', 'strip', 'lower', 'upper',
                        'split', 'join', 'format', 'replace', 'startswith', 'endswith', 'read', 'write',
                        'search', 'group', 'groups', 'copy', 'pop', 'sort', 'count', 'index', 'find', 'date',
                        'strftime', 'setdefault', 'insert', 'remove', 'clear'}

    def _facts(self, fi: FuncInfo):
        c = self._fact_cache.get(fi.qualname)
        if c is None:
            stores, getfn = set(fi.params), set()
            for n in own_nodes(fi.node):
                if isinstance(n, ast.Name) and isinstance(n.ctx, ast.Store):
                    stores.add(n.id)
                if isinstance(n, ast.Assign) and len(n.targets) == 1 and isinstance(n.targets[0], ast.Name) \
                        and isinstance(n.value, ast.Call) and isinstance(n.value.func, ast.Attribute) \
                        and n.value.func.attr == 'get_function':
                    getfn.add(n.targets[0].id)
            c = (stores, getfn)
            self._fact_cache[fi.qualname] = c
        return c

    def _is_local(self, fi: FuncInfo, name: str) -> bool:
        return name in self._facts(fi)[0]

    def _targets_of(self, r) -> List[object]:
        if r[0] == 'func':
            return [r[1]]
        if r[0] == 'class':
            ci: ClassInfo = r[1]
            outs = []
            for m in ('__init__', '__post_init__'):
                mm = self.proj.find_method(ci, m)
                if mm is not None:
                    outs.append(mm)
            return outs or [f'ext:class:{ci.qualname}']
        if r[0] == 'ext':
            return [f'ext:{r[1]}']
        if r[0] == 'module':
            return [f'ext:module:{r[1].name}']
        return []

    # ---------------------------------------------------------------- graph
    def _build(self) -> None:
        for fi in self.proj.all_funcs():
            self.g.add_node(fi.qualname)
        props: Dict[str, list] = {}
        for c in self.proj.classes.values():
            for m in c.methods.values():
                if any(isinstance(d, ast.Name) and d.id == 'property' for d in m.node.decorator_list):
                    props.setdefault(m.name, []).append(m)
        for fi in list(self.proj.all_funcs()):
            sites = []
            nodes = list(all_nodes(fi.node))
            for n in nodes:
                if not isinstance(n, ast.Call):
                    continue
                targets = self.resolve(fi, n)
                targets = targets + self._dynamic_targets(fi, n)
                self.total += 1
                if targets:
                    self.resolved += 1
                else:
                    self.unresolved.append(f'{fi.short}:{n.lineno}:{src(n.func)}')
                sites.append((n, targets))
                for t in targets:
                    if isinstance(t, FuncInfo):
                        self.g.add_edge(fi.qualname, t.qualname)
                        self.callers_of.setdefault(t.qualname, []).append((fi, n))
            # a nested def is "called" by its definer unless proven otherwise (conservative)
            for qn, sub in self.proj.funcs.items():
                if sub.outer is fi:
                    self.g.add_edge(fi.qualname, qn)
            self.sites[fi.qualname] = sites
            # property access: self.x / obj.x where x is a @property of a package class
            for n in nodes:
                if isinstance(n, ast.Attribute) and isinstance(n.ctx, ast.Load) and n.attr in props:
                    for m in props[n.attr]:
                        self.g.add_edge(fi.qualname, m.qualname)

    def _dynamic_targets(self, fi: FuncInfo, call: ast.Call) -> List[object]:
        """The two dynamic dispatches of the evaluators, modelled exactly:
        getattr(self, f'_eval_{type(node).__name__}')(node)  and  func = ctx.get_function(name); func(*args)."""
        out: List[object] = []
        f = call.func
        # getattr(self, method)(node)
        if isinstance(f, ast.Call) and isinstance(f.func, ast.Name) and f.func.id == 'getattr' and len(f.args) >= 2 \
                and isinstance(f.args[0], ast.Name) and f.args[0].id == 'self' and fi.cls is not None:
            for c in [fi.cls] + self.proj.subclasses(fi.cls):
                for m in c.methods.values():
                    if m.name.startswith('_eval_'):
                        out.append(m)
        # func(*args) where func = <x>.get_function(name)
        if isinstance(f, ast.Name) and f.id in self._facts(fi)[1]:
            ctx_classes = None
            if fi.cls is not None:
                init = self.proj.find_method(fi.cls, '__init__')
                if init is not None:
                    lt = self.local_types(init)
                    if lt.get('ctx'):
                        ctx_classes = lt['ctx']
            for c in self.proj.classes.values():
                if 'get_function' in c.methods and (ctx_classes is None or c.qualname in ctx_classes):
                    for m in c.methods.values():
                        if m.name.startswith('_fn_'):
                            out.append(m)
            out += ['ext:builtins.abs', 'ext:builtins.round']
        return out

    # -------------------------------------------------------------- queries
    def reachable(self, fi: FuncInfo) -> Set[str]:
        return set(nx.descendants(self.g, fi.qualname)) | {fi.qualname}

    def calls_from(self, fi: FuncInfo):
        return self.sites.get(fi.qualname, [])

    def callers(self, fi: FuncInfo) -> List[Tuple[FuncInfo, ast.Call]]:
        return self.callers_of.get(fi.qualname, [])

    def rate(self) -> float:
        return self.resolved / self.total if self.total else 1.0

    def path(self, a: FuncInfo, b_qual: str) -> List[str]:
        try:
            return nx.shortest_path(self.g, a.qualname, b_qual)
        except Exception:
            return []


def get_cg(proj: Project) -> CallGraph:
    if '_cg' not in proj.__dict__:
        proj.__dict__['_cg'] = CallGraph(proj)
    return proj.__dict__['_cg']
