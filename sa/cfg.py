"""Statement-level control-flow graph for one function (or one loop body),
with dominators, post-dominators, control dependence and reaching definitions.

Node = one statement (compound statements are represented by their header:
the `if`/`while` test, the `for` iterator, the `with` items).  Edge labels:
True / False for branches, 'loop' / 'exit' for loop heads, 'exc' for the
conservative exception edges from every statement of a `try` body to each of
its handlers, None otherwise.
"""
from __future__ import annotations

import ast
from typing import Dict, Iterable, List, Optional, Set, Tuple

import networkx as nx

from .project import src

ENTRY, EXIT, RAISE, END = 'ENTRY', 'EXIT', 'RAISE', 'END'
BREAK, CONT = 'BREAK', 'CONT'


class CFG:
    def __init__(self, body: List[ast.stmt], *, loop_body: bool = False, opaque_loops: bool = False,
                 params: Iterable[str] = ()):
        self.g = nx.DiGraph()
        self.stmt: Dict[int, ast.AST] = {}
        self.node_of: Dict[int, int] = {}
        self._n = 0
        self.loop_body = loop_body
        self.opaque_loops = opaque_loops
        self.params = list(params)
        for s in (ENTRY, EXIT, RAISE, END):
            self.g.add_node(s)
        if loop_body:
            self.g.add_node(BREAK)
            self.g.add_node(CONT)
        self._loops: List[Tuple[object, list]] = []     # (continue target, break-collector)
        self._handlers: List[List[int]] = []             # stack of handler entry lists
        self._pending_handler_entries: List[list] = []
        outs = self._seq(body, [(ENTRY, None)])
        fall = CONT if loop_body else EXIT
        for (p, lab) in outs:
            self._edge(p, fall, lab)
        self.g.add_edge(EXIT, END)
        self.g.add_edge(RAISE, END)
        if loop_body:
            self.g.add_edge(BREAK, END)
            self.g.add_edge(CONT, END)
        self._idom = None
        self._ipdom = None
        self._cd = None
        self._rd = None

    @classmethod
    def of_function(cls, fnode, **kw) -> 'CFG':
        a = fnode.args
        params = [x.arg for x in a.posonlyargs + a.args + a.kwonlyargs]
        if a.vararg:
            params.append(a.vararg.arg)
        if a.kwarg:
            params.append(a.kwarg.arg)
        return cls(fnode.body, params=params, **kw)

    # ------------------------------------------------------------ building
    def _new(self, stmt) -> int:
        self._n += 1
        nid = self._n
        self.g.add_node(nid)
        self.stmt[nid] = stmt
        self.node_of[id(stmt)] = nid
        return nid

    def _edge(self, a, b, label=None):
        if self.g.has_edge(a, b):
            self.g[a][b]['labels'].add(label)
        else:
            self.g.add_edge(a, b, labels={label})

    def _connect(self, preds, nid):
        for (p, lab) in preds:
            self._edge(p, nid, lab)

    def _exc_edges(self, nid):
        """Conservative: a statement inside try bodies may jump to any handler of the innermost try."""
        if self._handlers:
            self._pending_handler_entries[-1].append(nid)

    def _seq(self, stmts, preds):
        for s in stmts:
            preds = self._stmt(s, preds)
        return preds

    def _stmt(self, s, preds):
        if isinstance(s, ast.If):
            nid = self._new(s)
            self._connect(preds, nid)
            self._exc_edges(nid)
            t = self._seq(s.body, [(nid, True)])
            f = self._seq(s.orelse, [(nid, False)]) if s.orelse else [(nid, False)]
            return t + f
        if isinstance(s, (ast.For, ast.AsyncFor, ast.While)):
            nid = self._new(s)
            self._connect(preds, nid)
            self._exc_edges(nid)
            if self.opaque_loops:
                return [(nid, None)]
            breaks: list = []
            self._loops.append((nid, breaks))
            body_out = self._seq(s.body, [(nid, 'loop')])
            self._loops.pop()
            for (p, lab) in body_out:
                self._edge(p, nid, lab)
            exits = [(nid, 'exit')]
            if s.orelse:
                exits = self._seq(s.orelse, exits)
            return exits + breaks
        if isinstance(s, ast.Try):
            entries: list = []
            self._handlers.append([])
            self._pending_handler_entries.append(entries)
            body_out = self._seq(s.body, preds)
            self._handlers.pop()
            self._pending_handler_entries.pop()
            # Handlers: each raising statement may enter each handler.
            outs = []
            handler_preds = [(n, 'exc0' if i == 0 else 'exc') for i, n in enumerate(entries)]
            # also: the try may be entered and raise before the first statement completes
            for h in s.handlers:
                hn = self._new(h)
                self._connect(handler_preds, hn)
                # a handler body lives in the *outer* try context
                self._exc_edges(hn)
                outs += self._seq(h.body, [(hn, None)])
            if s.orelse:
                body_out = self._seq(s.orelse, body_out)
            outs += body_out
            if s.finalbody:
                outs = self._seq(s.finalbody, outs)
            return outs
        if isinstance(s, (ast.With, ast.AsyncWith)):
            nid = self._new(s)
            self._connect(preds, nid)
            self._exc_edges(nid)
            return self._seq(s.body, [(nid, None)])
        if isinstance(s, ast.Return):
            nid = self._new(s)
            self._connect(preds, nid)
            self._exc_edges(nid)
            self._edge(nid, EXIT)
            return []
        if isinstance(s, ast.Raise):
            nid = self._new(s)
            self._connect(preds, nid)
            if self._handlers:
                self._exc_edges(nid)
                # may also escape if no handler matches
                self._edge(nid, RAISE, 'exc')
            else:
                self._edge(nid, RAISE)
            return []
        if isinstance(s, ast.Break):
            nid = self._new(s)
            self._connect(preds, nid)
            if self._loops:
                self._loops[-1][1].append((nid, None))
            elif self.loop_body:
                self._edge(nid, BREAK)
            return []
        if isinstance(s, ast.Continue):
            nid = self._new(s)
            self._connect(preds, nid)
            if self._loops:
                self._edge(nid, self._loops[-1][0])
            elif self.loop_body:
                self._edge(nid, CONT)
            return []
        # simple statement (incl. nested def/class as opaque)
        nid = self._new(s)
        self._connect(preds, nid)
        self._exc_edges(nid)
        return [(nid, None)]

    # ------------------------------------------------------------- queries
    def nid(self, stmt) -> int:
        """CFG node of a statement (or of the statement enclosing an expression)."""
        n = stmt
        while n is not None and id(n) not in self.node_of:
            n = getattr(n, '_parent', None)
        if n is None:
            raise KeyError('statement not in CFG')
        return self.node_of[id(n)]

    def has(self, stmt) -> bool:
        n = stmt
        while n is not None and id(n) not in self.node_of:
            n = getattr(n, '_parent', None)
        return n is not None

    def stmts(self):
        return [self.stmt[i] for i in sorted(self.stmt)]

    @property
    def idom(self):
        if self._idom is None:
            self._idom = nx.immediate_dominators(self.g, ENTRY)
        return self._idom

    @property
    def ipdom(self):
        if self._ipdom is None:
            self._ipdom = nx.immediate_dominators(self.g.reverse(copy=True), END)
        return self._ipdom

    def dominates(self, a, b) -> bool:
        """node a dominates node b (a, b node ids or statements)."""
        a = a if isinstance(a, (int, str)) else self.nid(a)
        b = b if isinstance(b, (int, str)) else self.nid(b)
        if b not in self.idom:
            return True   # unreachable: vacuous
        cur = b
        while True:
            if cur == a:
                return True
            nxt = self.idom.get(cur)
            if nxt is None or nxt == cur:
                return False
            cur = nxt

    def postdominates(self, a, b) -> bool:
        a = a if isinstance(a, (int, str)) else self.nid(a)
        b = b if isinstance(b, (int, str)) else self.nid(b)
        if b not in self.ipdom:
            return True
        cur = b
        while True:
            if cur == a:
                return True
            nxt = self.ipdom.get(cur)
            if nxt is None or nxt == cur:
                return False
            cur = nxt

    def reachable_without(self, start, goal, blocked: Set, skip_exc: bool = False, stable_names: Iterable[str] = ()) -> bool:
        """Is there a path start -> goal avoiding `blocked` nodes?

        Path-sensitive for tests on `stable_names` (names that are never re-bound in the function, e.g. parameters):
        a path may not take contradictory outcomes of `x` / `not x` / `x is None` / `x is not None` tests.
        """
        stable = set(stable_names)

        def fact(node, label):
            s = self.stmt.get(node)
            if not isinstance(s, (ast.If, ast.While)) or label not in (True, False, 'loop', 'exit'):
                return None
            truth = label in (True, 'loop')
            t = s.test
            if isinstance(t, ast.UnaryOp) and isinstance(t.op, ast.Not):
                t, truth = t.operand, not truth
            if isinstance(t, ast.Name) and t.id in stable:
                return (t.id, 'truthy', truth)
            if isinstance(t, ast.Compare) and len(t.ops) == 1 and isinstance(t.left, ast.Name) and t.left.id in stable \
                    and isinstance(t.comparators[0], ast.Constant) and t.comparators[0].value is None:
                if isinstance(t.ops[0], ast.Is):
                    return (t.left.id, 'none', truth)
                if isinstance(t.ops[0], ast.IsNot):
                    return (t.left.id, 'none', not truth)
            return None

        seen, todo = set(), [(start, frozenset())]
        while todo:
            n, facts = todo.pop()
            if n == goal:
                return True
            if (n, facts) in seen or (n in blocked and n != start):
                continue
            seen.add((n, facts))
            for m in self.g.successors(n):
                labels = self.g[n][m].get('labels', {None})
                if skip_exc and labels == {'exc'}:
                    continue
                for lab in labels:
                    f = fact(n, lab)
                    if f is None:
                        todo.append((m, facts))
                        continue
                    contra = (f[0], f[1], not f[2])
                    if contra in facts:
                        continue
                    todo.append((m, facts | {f}))
        return False

    # control dependence ----------------------------------------------------
    def same_iteration_reaches(self, loop, a, b, skip_exc: bool = True) -> bool:
        """Can control go from statement a to statement b without passing the header of `loop` (i.e. within the same iteration)?"""
        return self.reachable_without(self.nid(a), self.nid(b), {self.nid(loop)}, skip_exc=skip_exc)

    @property
    def control_deps(self) -> Dict[object, Set[Tuple[object, object]]]:
        """node -> {(branch node, label)} direct control dependences."""
        if self._cd is None:
            cd: Dict[object, Set] = {n: set() for n in self.g.nodes}
            ipdom = self.ipdom
            for a, b, data in self.g.edges(data=True):
                labels = data.get('labels', {None})
                if a not in ipdom or b not in ipdom:
                    continue
                stop = ipdom.get(a)
                cur = b
                guard = 0
                while cur != stop and cur is not None and guard < 10000:
                    for lab in labels:
                        cd[cur].add((a, lab))
                    nxt = ipdom.get(cur)
                    if nxt == cur:
                        break
                    cur = nxt
                    guard += 1
            self._cd = cd
        return self._cd

    def _edge_graph(self):
        """Normal-flow graph with one virtual node per labelled branch edge.  Exception edges are dropped except
        the one from the first statement of each try body (label 'exc0'), which stands for "an exception was
        raised somewhere in this try"."""
        if getattr(self, '_eg', None) is None:
            H = nx.DiGraph()
            H.add_nodes_from(self.g.nodes)
            for a, b, data in self.g.edges(data=True):
                labels = set(data.get('labels', {None}))
                normal = labels - {'exc'}
                if not normal:
                    continue
                for lab in normal:
                    if lab in (True, False, 'loop', 'exit'):
                        e = ('edge', a, lab)
                        H.add_edge(a, e)
                        H.add_edge(e, b)
                    else:
                        H.add_edge(a, b)
            self._eg = H
            self._eg_idom = nx.immediate_dominators(H, ENTRY)
        return self._eg, self._eg_idom

    def guards(self, stmt, *, include_exc: bool = False) -> Set[Tuple[object, object]]:
        """Branch edges that every normal-flow path from the function entry to the statement takes last:
        {(branch node id, label)} = the labelled edges that dominate the statement.  For a branch node that
        appears with both labels (possible around loops) only the closest one is kept."""
        start = stmt if isinstance(stmt, (int, str)) else self.nid(stmt)
        _H, idom = self._edge_graph()
        out: Set[Tuple[object, object]] = set()
        seen_nodes = set()
        cur = start
        n = 0
        while cur in idom and idom[cur] != cur and n < 100000:
            cur = idom[cur]
            n += 1
            if isinstance(cur, tuple) and cur and cur[0] == 'edge':
                if cur[1] not in seen_nodes:
                    seen_nodes.add(cur[1])
                    out.add((cur[1], cur[2]))
        return out

    def guard_literals_within(self, stmt, within) -> Set[Tuple[str, bool]]:
        """guard_literals restricted to branch statements nested inside the AST node `within`."""
        inside = {id(n) for n in ast.walk(within)}
        lits: Set[Tuple[str, bool]] = set()
        for b, lab in self.guards(stmt):
            s = self.stmt.get(b)
            if not isinstance(s, (ast.If, ast.While)) or id(s) not in inside or s is within:
                continue
            if lab not in (True, False, 'loop', 'exit'):
                continue
            for atom, t in conj_atoms(s.test, lab in (True, 'loop')):
                lits.add((src(atom), t))
        return lits

    def guard_literals(self, stmt) -> Set[Tuple[str, bool]]:
        """Conditions known to hold on reaching stmt: {(atom source text, truth)}.

        A branch (test, True) with `a and b` contributes (a,True),(b,True);
        (test, False) with `a or b` contributes (a,False),(b,False); `not x` flips.
        Only atoms that hold on *every* way of reaching stmt are kept: a statement
        control-dependent on both arms of the same test contributes nothing for it.
        """
        raw = self.guards(stmt)
        by_node: Dict[object, Set] = {}
        for (b, lab) in raw:
            by_node.setdefault(b, set()).add(lab)
        lits: Set[Tuple[str, bool]] = set()
        for b, labs in by_node.items():
            s = self.stmt.get(b)
            if not isinstance(s, (ast.If, ast.While)):
                continue
            labs = {l for l in labs if l in (True, False, 'loop', 'exit')}
            if len(labs) != 1:
                continue
            lab = next(iter(labs))
            truth = lab in (True, 'loop')
            for atom, t in conj_atoms(s.test, truth):
                lits.add((src(atom), t))
        return lits

    def guard_atoms(self, stmt) -> List[Tuple[ast.AST, bool]]:
        """Like guard_literals but returns AST atoms."""
        raw = self.guards(stmt)
        by_node: Dict[object, Set] = {}
        for (b, lab) in raw:
            by_node.setdefault(b, set()).add(lab)
        out = []
        for b, labs in by_node.items():
            s = self.stmt.get(b)
            if not isinstance(s, (ast.If, ast.While)):
                continue
            labs = {l for l in labs if l in (True, False, 'loop', 'exit')}
            if len(labs) != 1:
                continue
            lab = next(iter(labs))
            out += conj_atoms(s.test, lab in (True, 'loop'))
        return out

    # reaching definitions ----------------------------------------------------
    def reaching(self) -> Dict[object, Dict[str, Set[object]]]:
        """IN sets: node -> {var -> {defining node ids | 'param'}}."""
        if self._rd is not None:
            return self._rd
        gen: Dict[object, Dict[str, Set]] = {}
        for nid, s in self.stmt.items():
            names = defined_names(s)
            gen[nid] = {n: {nid} for n in names}
        IN: Dict[object, Dict[str, Set]] = {n: {} for n in self.g.nodes}
        OUT: Dict[object, Dict[str, Set]] = {n: {} for n in self.g.nodes}
        OUT[ENTRY] = {p: {'param'} for p in self.params}
        work = list(nx.topological_sort(nx.condensation(self.g))) if False else list(self.g.nodes)
        changed = True
        it = 0
        while changed and it < 200:
            changed = False
            it += 1
            for n in work:
                if n == ENTRY:
                    continue
                new_in: Dict[str, Set] = {}
                for p in self.g.predecessors(n):
                    labels = self.g[p][n].get('labels', {None})
                    srcs = [OUT[p]]
                    if 'exc' in labels:
                        srcs.append(IN[p])   # the raising statement may not have completed
                    for d in srcs:
                        for var, defs in d.items():
                            new_in.setdefault(var, set()).update(defs)
                if new_in != IN[n]:
                    IN[n] = new_in
                    changed = True
                g = gen.get(n, {})
                new_out = dict(new_in)
                for var, defs in g.items():
                    if is_weak_def(self.stmt.get(n), var):
                        new_out[var] = set(new_out.get(var, set())) | defs
                    else:
                        new_out[var] = set(defs)
                if new_out != OUT[n]:
                    OUT[n] = new_out
                    changed = True
        self._rd = IN
        self._rd_out = OUT
        return IN

    def defs_reaching(self, stmt, var: str) -> Set[object]:
        return set(self.reaching().get(self.nid(stmt), {}).get(var, set()))

    # path enumeration --------------------------------------------------------
    def paths(self, start=ENTRY, ends=(EXIT,), limit: int = 20000, skip_exc: bool = True):
        """All acyclic paths (lists of node ids) from start to any of `ends`."""
        out = []
        ends = set(ends)

        def rec(n, path, seen):
            if len(out) >= limit:
                return
            if n in ends:
                out.append(path + [n])
                return
            for m in self.g.successors(n):
                if m in seen:
                    continue
                if skip_exc and self.g[n][m].get('labels') == {'exc'}:
                    continue
                rec(m, path + [n], seen | {m})
        rec(start, [], {start})
        return out


def conj_atoms(test: ast.AST, truth: bool) -> List[Tuple[ast.AST, bool]]:
    if isinstance(test, ast.UnaryOp) and isinstance(test.op, ast.Not):
        return conj_atoms(test.operand, not truth)
    if isinstance(test, ast.BoolOp):
        if isinstance(test.op, ast.And) and truth:
            return [x for v in test.values for x in conj_atoms(v, True)]
        if isinstance(test.op, ast.Or) and not truth:
            return [x for v in test.values for x in conj_atoms(v, False)]
        return [(test, truth)]
    # one spelling per fact: `x is not None` / `a != b` / `a not in b` are the negations of `x is None` / `a == b` / `a in b`
    if isinstance(test, ast.Compare) and len(test.ops) == 1 and isinstance(test.ops[0], (ast.IsNot, ast.NotEq, ast.NotIn)):
        pos = {ast.IsNot: ast.Is, ast.NotEq: ast.Eq, ast.NotIn: ast.In}[type(test.ops[0])]()
        flipped = ast.Compare(left=test.left, ops=[pos], comparators=test.comparators)
        ast.copy_location(flipped, test)
        return [(flipped, not truth)]
    return [(test, truth)]


def target_names(t) -> List[str]:
    out = []
    if isinstance(t, ast.Name):
        out.append(t.id)
    elif isinstance(t, (ast.Tuple, ast.List)):
        for e in t.elts:
            out += target_names(e)
    elif isinstance(t, ast.Starred):
        out += target_names(t.value)
    return out


def defined_names(s) -> Set[str]:
    """Local names (re)bound by the header of statement s."""
    out: Set[str] = set()
    if isinstance(s, ast.Assign):
        for t in s.targets:
            out.update(target_names(t))
    elif isinstance(s, (ast.AnnAssign,)):
        if s.value is not None:
            out.update(target_names(s.target))
    elif isinstance(s, ast.AugAssign):
        out.update(target_names(s.target))
    elif isinstance(s, (ast.For, ast.AsyncFor)):
        out.update(target_names(s.target))
    elif isinstance(s, (ast.With, ast.AsyncWith)):
        for it in s.items:
            if it.optional_vars is not None:
                out.update(target_names(it.optional_vars))
    elif isinstance(s, ast.ExceptHandler):
        if s.name:
            out.add(s.name)
    elif isinstance(s, (ast.FunctionDef, ast.AsyncFunctionDef, ast.ClassDef)):
        out.add(s.name)
    elif isinstance(s, (ast.Import, ast.ImportFrom)):
        for a in s.names:
            out.add((a.asname or a.name).split('.')[0])
    # walrus inside the header expression
    hdr = header_exprs(s)
    for e in hdr:
        for n in ast.walk(e):
            if isinstance(n, ast.NamedExpr) and isinstance(n.target, ast.Name):
                out.add(n.target.id)
    return out


def is_weak_def(s, var) -> bool:
    return isinstance(s, ast.AugAssign)


def header_exprs(s) -> List[ast.AST]:
    """Expressions evaluated by the CFG node of statement s (not its nested bodies)."""
    if isinstance(s, (ast.If, ast.While)):
        return [s.test]
    if isinstance(s, (ast.For, ast.AsyncFor)):
        return [s.iter]
    if isinstance(s, (ast.With, ast.AsyncWith)):
        return [it.context_expr for it in s.items]
    if isinstance(s, ast.ExceptHandler):
        return [s.type] if s.type is not None else []
    if isinstance(s, (ast.FunctionDef, ast.AsyncFunctionDef, ast.ClassDef)):
        return []
    if isinstance(s, ast.Try):
        return []
    return [s]


def walk_header(s):
    """ast.walk over what the CFG node of s evaluates (no nested statement bodies,
    no nested function bodies)."""
    for e in header_exprs(s):
        todo = [e]
        while todo:
            n = todo.pop()
            yield n
            for c in ast.iter_child_nodes(n):
                if isinstance(c, (ast.FunctionDef, ast.AsyncFunctionDef, ast.ClassDef, ast.Lambda)):
                    continue
                todo.append(c)
