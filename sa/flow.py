"""Def-use / provenance over one function.

`leaf_paths(expr, at)` follows reaching definitions of local names backwards and
returns, for every leaf the value can derive from, the chain of operations
(method / function names, operators) applied on the way from that leaf to the
expression.  `atoms(expr, at)` is the flattened set view used by most rules.

Leaf / atom vocabulary (strings):
    param:<name>        a parameter of the function
    const:<repr>        a literal
    global:<name>       module-level / imported / builtin name
    loopvar:<name>      target of an enclosing/reaching `for`
    key:<root>:<k>      <root>['k'] or <root>.get('k', ..) with a literal key
    attr:<a.b.c>        attribute chain text rooted at a name
    call:<name>         a call (function or method name) somewhere in the derivation
    name:<id>           every local name passed through
    op:<symbol>         an operator applied on the way
    unpack              value obtained by tuple unpacking
"""
from __future__ import annotations

import ast
from typing import Dict, List, Optional, Set, Tuple

from .cfg import CFG, defined_names, target_names
from .project import FuncInfo, Project, ancestors, dotted, parent, root_name, src


def call_name(call: ast.Call) -> str:
    f = call.func
    if isinstance(f, ast.Name):
        return f.id
    if isinstance(f, ast.Attribute):
        return f.attr
    return '<dynamic>'


def const_key(node) -> Optional[str]:
    if isinstance(node, ast.Constant) and isinstance(node.value, (str, int)):
        return str(node.value)
    return None


class Flow:
    def __init__(self, proj: Project, fi: FuncInfo):
        self.proj = proj
        self.fi = fi
        self.cfg = CFG.of_function(fi.node)
        self._memo: Dict[Tuple[int, int], List[Tuple[str, Tuple[str, ...]]]] = {}
        self._locals = None
        self._stores = None
        self.follow_stores = False

    # ------------------------------------------------------------- helpers
    def stmt_of(self, node):
        n = node
        while n is not None and id(n) not in self.cfg.node_of:
            n = parent(n)
        return n

    def enclosing_loops(self, node) -> List[ast.For]:
        out = []
        for a in ancestors(node):
            if a is self.fi.node:
                break
            if isinstance(a, (ast.For, ast.AsyncFor)):
                out.append(a)
        return out

    def enclosing_loop_var(self, node) -> Optional[str]:
        loops = self.enclosing_loops(node)
        if not loops:
            return None
        names = target_names(loops[0].target)
        return names[0] if names else None

    def is_local(self, name: str) -> bool:
        if self._locals is None:
            loc = set(self.fi.params)
            for s in self.cfg.stmt.values():
                loc |= defined_names(s)
            self._locals = loc
        # comprehension targets are handled lexically
        return name in self._locals

    def _dict_literal_value(self, base_name: str, key: str, at_stmt):
        """If every definition of `base_name` reaching at_stmt is a dict literal with constant keys, return the
        value expressions stored under `key` (by the literal, or by later `base[key] = v` stores in this function);
        None when the shape is not that simple."""
        if at_stmt is None or not self.cfg.has(at_stmt):
            return None
        defs = self.cfg.defs_reaching(at_stmt, base_name)
        if not defs or 'param' in defs:
            return None
        vals = []
        for d in defs:
            s = self.cfg.stmt[d]
            v = getattr(s, 'value', None) if isinstance(s, (ast.Assign, ast.AnnAssign)) else None
            if not isinstance(v, ast.Dict) or any(k is None or const_key(k) is None for k in v.keys):
                return None
            for k, val in zip(v.keys, v.values):
                if const_key(k) == key:
                    vals.append((val, s))
        for s in self.cfg.stmt.values():
            if isinstance(s, ast.Assign):
                for t in s.targets:
                    if isinstance(t, ast.Subscript) and isinstance(t.value, ast.Name) and t.value.id == base_name \
                            and const_key(t.slice) == key:
                        vals.append((s.value, s))
        return vals or None

    # ---------------------------------------------------------- provenance
    def leaf_paths(self, expr, at=None, _depth=0, _seen=None) -> List[Tuple[str, Tuple[str, ...]]]:
        """[(leaf, ops-from-leaf-outwards)]"""
        at_stmt = self.stmt_of(at if at is not None else expr)
        _seen = _seen if _seen is not None else set()
        return self._lp(expr, at_stmt, (), _seen, 0)

    def atoms(self, expr, at=None, stores: bool = False) -> Set[str]:
        """stores=True also follows values put into locally built containers (X[k] = v, X.append(v), …)."""
        out: Set[str] = set()
        old = self.follow_stores
        self.follow_stores = stores
        try:
            paths = self.leaf_paths(expr, at)
        finally:
            self.follow_stores = old
        for leaf, ops in paths:
            out.add(leaf)
            out.update(ops)
        return out

    def _lp(self, e, at_stmt, ops: Tuple[str, ...], seen: set, depth: int):
        if depth > 40 or e is None:
            return []
        out: List[Tuple[str, Tuple[str, ...]]] = []
        if isinstance(e, ast.Constant):
            return [(f'const:{e.value!r}', ops)]
        if isinstance(e, ast.Name):
            return self._name(e.id, e, at_stmt, ops, seen, depth)
        if isinstance(e, ast.Attribute):
            d = dotted(e)
            extra = ops
            if d is not None:
                extra = (f'attr:{d}',) + ops
            return self._lp(e.value, at_stmt, (f'.{e.attr}',) + extra, seen, depth + 1)
        if isinstance(e, ast.Subscript):
            k = const_key(e.slice)
            r = root_name(e.value)
            extra = ops
            if k is not None and isinstance(e.value, ast.Name):
                extra = (f'key:{e.value.id}:{k}',) + ops
                vals = self._dict_literal_value(e.value.id, k, at_stmt)
                if vals is not None:
                    for val, st in vals:
                        out += self._lp(val, st, (f'name:{e.value.id}', f'[{k}]') + extra, seen, depth + 1)
                    return out
            elif k is not None:
                extra = (f'key:?:{k}',) + ops
            out += self._lp(e.value, at_stmt, (f'[{k if k is not None else "*"}]',) + extra, seen, depth + 1)
            if k is None:
                out += self._lp(e.slice, at_stmt, ('op:index',) + ops, seen, depth + 1)
            return out
        if isinstance(e, ast.Call):
            cn = call_name(e)
            tag = f'call:{cn}'
            f = e.func
            dq = dotted(f)
            if dq is not None:
                ops = (f'callq:{dq}',) + ops
            if isinstance(f, ast.Attribute):
                # dict.get('k', default)
                if cn == 'get' and e.args and const_key(e.args[0]) is not None:
                    k = const_key(e.args[0])
                    extra = (f'key:{f.value.id}:{k}',) + ops if isinstance(f.value, ast.Name) else (f'key:?:{k}',) + ops
                    vals = self._dict_literal_value(f.value.id, k, at_stmt) if isinstance(f.value, ast.Name) else None
                    if vals is not None:
                        for val, st in vals:
                            out += self._lp(val, st, (f'name:{f.value.id}', f'[{k}]') + extra, seen, depth + 1)
                    else:
                        out += self._lp(f.value, at_stmt, (f'[{k}]',) + extra, seen, depth + 1)
                    for a in e.args[1:]:
                        out += self._lp(a, at_stmt, ('op:default',) + ops, seen, depth + 1)
                    return out
                out += self._lp(f.value, at_stmt, (tag,) + ops, seen, depth + 1)
            else:
                out.append((f'global:{cn}', (tag,) + ops) if isinstance(f, ast.Name) and not self.is_local(cn)
                           else (f'callee:{cn}', (tag,) + ops))
            for a in e.args:
                a2 = a.value if isinstance(a, ast.Starred) else a
                out += self._lp(a2, at_stmt, (tag,) + ops, seen, depth + 1)
            for kw in e.keywords:
                out += self._lp(kw.value, at_stmt, (tag, f'kw:{kw.arg}') + ops, seen, depth + 1)
            return out
        if isinstance(e, ast.BinOp):
            sym = {ast.Add: '+', ast.Sub: '-', ast.Mult: '*', ast.Div: '/', ast.Mod: '%', ast.BitAnd: '&',
                   ast.BitOr: '|', ast.Pow: '**', ast.FloorDiv: '//'}.get(type(e.op), '?')
            return (self._lp(e.left, at_stmt, (f'op:{sym}',) + ops, seen, depth + 1)
                    + self._lp(e.right, at_stmt, (f'op:{sym}',) + ops, seen, depth + 1))
        if isinstance(e, ast.UnaryOp):
            sym = {ast.Not: 'not', ast.USub: 'neg', ast.UAdd: 'pos', ast.Invert: 'inv'}[type(e.op)]
            return self._lp(e.operand, at_stmt, (f'op:{sym}',) + ops, seen, depth + 1)
        if isinstance(e, ast.BoolOp):
            sym = 'or' if isinstance(e.op, ast.Or) else 'and'
            for v in e.values:
                out += self._lp(v, at_stmt, (f'op:{sym}',) + ops, seen, depth + 1)
            return out
        if isinstance(e, ast.Compare):
            out += self._lp(e.left, at_stmt, ('op:cmp',) + ops, seen, depth + 1)
            for c in e.comparators:
                out += self._lp(c, at_stmt, ('op:cmp',) + ops, seen, depth + 1)
            return out
        if isinstance(e, ast.IfExp):
            out += self._lp(e.body, at_stmt, ops, seen, depth + 1)
            out += self._lp(e.orelse, at_stmt, ops, seen, depth + 1)
            out += self._lp(e.test, at_stmt, ('op:test',) + ops, seen, depth + 1)
            return out
        if isinstance(e, (ast.Tuple, ast.List, ast.Set)):
            for x in e.elts:
                x2 = x.value if isinstance(x, ast.Starred) else x
                out += self._lp(x2, at_stmt, ('op:elt',) + ops, seen, depth + 1)
            if not e.elts:
                out.append(('const:empty', ops))
            return out
        if isinstance(e, ast.Dict):
            for k, v in zip(e.keys, e.values):
                if k is not None:
                    out += self._lp(k, at_stmt, ('op:dictkey',) + ops, seen, depth + 1)
                out += self._lp(v, at_stmt, ('op:dictval',) + ops, seen, depth + 1)
            if not e.keys:
                out.append(('const:empty', ops))
            return out
        if isinstance(e, ast.JoinedStr):
            for v in e.values:
                if isinstance(v, ast.FormattedValue):
                    out += self._lp(v.value, at_stmt, ('op:fstring',) + ops, seen, depth + 1)
                else:
                    out += self._lp(v, at_stmt, ('op:fstring',) + ops, seen, depth + 1)
            return out
        if isinstance(e, ast.FormattedValue):
            return self._lp(e.value, at_stmt, ('op:fstring',) + ops, seen, depth + 1)
        if isinstance(e, (ast.ListComp, ast.SetComp, ast.GeneratorExp, ast.DictComp)):
            elts = [e.elt] if not isinstance(e, ast.DictComp) else [e.key, e.value]
            for x in elts:
                out += self._lp(x, at_stmt, ('op:comp',) + ops, seen, depth + 1)
            for g in e.generators:
                for c in g.ifs:
                    out += self._lp(c, at_stmt, ('op:compif',) + ops, seen, depth + 1)
            return out
        if isinstance(e, ast.Lambda):
            return self._lp(e.body, at_stmt, ('op:lambda',) + ops, seen, depth + 1)
        if isinstance(e, ast.NamedExpr):
            return self._lp(e.value, at_stmt, ops, seen, depth + 1)
        if isinstance(e, ast.Starred):
            return self._lp(e.value, at_stmt, ops, seen, depth + 1)
        if isinstance(e, ast.Slice):
            for x in (e.lower, e.upper, e.step):
                if x is not None:
                    out += self._lp(x, at_stmt, ('op:slice',) + ops, seen, depth + 1)
            return out
        if isinstance(e, ast.Await):
            return self._lp(e.value, at_stmt, ops, seen, depth + 1)
        return [(f'expr:{type(e).__name__}', ops)]

    def _comp_binding(self, name: str, node):
        """If `name` at `node` is bound by an enclosing comprehension / lambda, return the binder."""
        for a in ancestors(node):
            if a is self.fi.node:
                break
            if isinstance(a, (ast.ListComp, ast.SetComp, ast.GeneratorExp, ast.DictComp)):
                for g in a.generators:
                    if name in target_names(g.target):
                        return ('comp', g)
            if isinstance(a, ast.Lambda):
                if name in [x.arg for x in a.args.args]:
                    return ('lambda', a)
        return None

    def _name(self, name, node, at_stmt, ops, seen, depth):
        ops = (f'name:{name}',) + ops
        b = self._comp_binding(name, node)
        if b is not None:
            if b[0] == 'comp':
                g = b[1]
                return [(f'loopvar:{name}', ops)] + self._lp(g.iter, at_stmt, ('op:iter',) + ops, seen, depth + 1)
            return [(f'lambdaarg:{name}', ops)]
        if at_stmt is None or not self.cfg.has(at_stmt):
            return [(f'global:{name}', ops)]
        nid = self.cfg.nid(at_stmt)
        defs = self.cfg.reaching().get(nid, {}).get(name)
        # a statement that both uses and defines (x = f(x)) – IN set is the right one
        if not defs:
            if name in self.fi.params:
                return [(f'param:{name}', ops)]
            outer = self.fi.outer
            if outer is not None and (name in outer.params):
                return [(f'outer:{name}', ops)]
            return [(f'global:{name}', ops)]
        out = []
        for d in defs:
            if d == 'param':
                out.append((f'param:{name}', ops))
                continue
            key = (d, name)
            if key in seen:
                continue
            seen2 = seen | {key}
            s = self.cfg.stmt[d]
            out += self._def_paths(s, name, ops, seen2, depth)
        # values put into a locally built container: X[k] = v, X.append(v), X.update(v) … (flow-insensitive)
        for (st, val) in (self._container_stores().get(name, ()) if self.follow_stores else ()):
            key = ('store', id(st), name)
            if key in seen:
                continue
            out += self._lp(val, st, ('op:stored',) + ops, seen | {key}, depth + 1)
        return out

    def _container_stores(self):
        if self._stores is None:
            table = {}
            for st in self.cfg.stmt.values():
                from .cfg import header_exprs
                if isinstance(st, (ast.Assign, ast.AugAssign)):
                    for t in (st.targets if isinstance(st, ast.Assign) else [st.target]):
                        if isinstance(t, ast.Subscript) and isinstance(t.value, ast.Name):
                            table.setdefault(t.value.id, []).append((st, st.value))
                            if not isinstance(t.slice, ast.Constant):
                                table.setdefault(t.value.id, []).append((st, t.slice))
                for h in header_exprs(st):
                    for n in ast.walk(h):
                        if isinstance(n, ast.Call) and isinstance(n.func, ast.Attribute) and isinstance(n.func.value, ast.Name) \
                                and n.func.attr in ('append', 'add', 'update', 'extend', 'setdefault', 'insert'):
                            for a in n.args:
                                table.setdefault(n.func.value.id, []).append((st, a))
            self._stores = table
        return self._stores

    def _literal_rows(self, e, at_stmt, width: int):
        """rows of a literal table of `width`-tuples that e denotes (the literal itself, or a local with exactly one reaching definition that is one)"""
        if isinstance(e, ast.Name) and self.cfg.has(at_stmt):
            defs = [d for d in self.cfg.defs_reaching(at_stmt, e.id)]
            if len(defs) == 1 and defs[0] != 'param':
                st = self.cfg.stmt[defs[0]]
                if isinstance(st, ast.Assign) and len(st.targets) == 1 and isinstance(st.targets[0], ast.Name):
                    e = st.value
        if isinstance(e, (ast.Tuple, ast.List)) and e.elts and width and all(isinstance(r, (ast.Tuple, ast.List)) and len(r.elts) == width for r in e.elts):
            return list(e.elts)
        return None

    def _def_paths(self, s, name, ops, seen, depth):
        if isinstance(s, ast.Assign):
            out = []
            for t in s.targets:
                if isinstance(t, ast.Name) and t.id == name:
                    out += self._lp(s.value, s, ops, seen, depth + 1)
                elif name in target_names(t):
                    idx = self._unpack_index(t, name)
                    if isinstance(s.value, (ast.Tuple, ast.List)) and idx is not None and idx < len(s.value.elts) \
                            and len(s.value.elts) == len(t.elts):
                        out += self._lp(s.value.elts[idx], s, ops, seen, depth + 1)
                    else:
                        out += self._lp(s.value, s, (f'unpack:{idx}', 'unpack') + ops, seen, depth + 1)
            return out
        if isinstance(s, ast.AnnAssign):
            return self._lp(s.value, s, ops, seen, depth + 1)
        if isinstance(s, ast.AugAssign):
            sym = {ast.Add: '+', ast.Sub: '-', ast.Mult: '*', ast.Div: '/'}.get(type(s.op), '?')
            return self._lp(s.value, s, (f'op:{sym}',) + ops, seen, depth + 1)
        if isinstance(s, (ast.For, ast.AsyncFor)):
            idx = self._unpack_index(s.target, name) if not isinstance(s.target, ast.Name) else None
            extra = (f'unpack:{idx}', 'unpack') if idx is not None else ()
            if idx is not None:
                # `for a, b in ((x1, y1), (x2, y2))` (a literal table, directly or through a local bound once to one): a comes from the x's only
                rows = self._literal_rows(s.iter, s, len(s.target.elts) if isinstance(s.target, (ast.Tuple, ast.List)) else 0)
                if rows is not None:
                    out = [(f'loopvar:{name}', ops)]
                    for r_ in rows:
                        out += self._lp(r_.elts[idx], s, ('op:iter',) + extra + ops, seen, depth + 1)
                    return out
            return [(f'loopvar:{name}', ops)] + self._lp(s.iter, s, ('op:iter',) + extra + ops, seen, depth + 1)
        if isinstance(s, (ast.With, ast.AsyncWith)):
            out = []
            for it in s.items:
                if it.optional_vars is not None and name in target_names(it.optional_vars):
                    out += self._lp(it.context_expr, s, ('op:with',) + ops, seen, depth + 1)
            return out
        if isinstance(s, ast.ExceptHandler):
            return [(f'exc:{name}', ops)]
        if isinstance(s, (ast.FunctionDef, ast.AsyncFunctionDef, ast.ClassDef)):
            return [(f'localdef:{name}', ops)]
        if isinstance(s, (ast.Import, ast.ImportFrom)):
            return [(f'global:{name}', ops)]
        # walrus in a header
        from .cfg import header_exprs
        for h in header_exprs(s):
            for n in ast.walk(h):
                if isinstance(n, ast.NamedExpr) and isinstance(n.target, ast.Name) and n.target.id == name:
                    return self._lp(n.value, s, ops, seen, depth + 1)
        return [(f'unknown:{name}', ops)]

    @staticmethod
    def _unpack_index(t, name) -> Optional[int]:
        if isinstance(t, (ast.Tuple, ast.List)):
            for i, x in enumerate(t.elts):
                if name in target_names(x):
                    return i
        return None

    # ------------------------------------------------------- misc queries
    def calls(self, name: Optional[str] = None) -> List[ast.Call]:
        from .callgraph import all_nodes
        out = [n for n in all_nodes(self.fi.node) if isinstance(n, ast.Call)]
        if name is not None:
            out = [c for c in out if call_name(c) == name]
        return sorted(out, key=lambda c: (c.lineno, c.col_offset))

    def stores_to(self, pred) -> List[ast.AST]:
        """Statements whose assignment target satisfies pred(target node)."""
        out = []
        for s in self.cfg.stmt.values():
            targets = []
            if isinstance(s, ast.Assign):
                targets = s.targets
            elif isinstance(s, (ast.AugAssign, ast.AnnAssign)):
                targets = [s.target]
            for t in targets:
                if pred(t):
                    out.append(s)
                    break
        return out


def get_flow(proj: Project, fi: FuncInfo) -> Flow:
    cache = proj.__dict__.setdefault('_flow_cache', {})
    if fi.qualname not in cache:
        cache[fi.qualname] = Flow(proj, fi)
    return cache[fi.qualname]


def bound_args(proj, fi_caller: FuncInfo, call: ast.Call) -> Dict[str, ast.AST]:
    """{parameter name: argument expression} of a call, whether the argument was passed by position or by keyword.
    Needs the callee (resolved through the call graph); for an unresolved callee only the keyword arguments are known."""
    out: Dict[str, ast.AST] = {k.arg: k.value for k in call.keywords if k.arg}
    try:
        from .callgraph import get_cg
        targets = [t for t in get_cg(proj).resolve(fi_caller, call) if isinstance(t, FuncInfo)]
    except Exception:
        targets = []
    if targets:
        t = targets[0]
        if t.short == '__post_init__' and len(targets) > 1:
            t = targets[1]
        params = [a.arg for a in t.node.args.args]
        if params and params[0] in ('self', 'cls') and t.cls is not None:
            params = params[1:]
        for i, a in enumerate(call.args):
            if isinstance(a, ast.Starred):
                break
            if i < len(params):
                out.setdefault(params[i], a)
    return out


def arg_of(call: ast.Call, fi_callee: Optional[FuncInfo], pname: str, pos: Optional[int] = None):
    """Expression passed for parameter `pname` at a call (None if omitted)."""
    for kw in call.keywords:
        if kw.arg == pname:
            return kw.value
    if fi_callee is not None:
        params = fi_callee.params
        if fi_callee.cls is not None and params and params[0] in ('self', 'cls'):
            params = params[1:]
        if pname in params:
            i = params.index(pname)
            if i < len(call.args) and not any(isinstance(a, ast.Starred) for a in call.args[:i + 1]):
                return call.args[i]
        return None
    if pos is not None and pos < len(call.args):
        return call.args[pos]
    return None
